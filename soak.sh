#!/bin/bash
# soak: run every built check over several seed blocks; print one line per (check, seed); used with `vp run`
cd "$(dirname "$0")"
SEEDS="${SOAK_SEEDS:-11 12 13 14 15}"
WALL="${SOAK_WALL:-60}"
for sd in $SEEDS; do
  for f in checks/c[0-9][0-9].py; do
    id=$(basename $f .py | tr a-z A-Z)
    out=$(VERIF_SEED=$sd VERIF_WALL=$WALL VERIF_COUNT=100000000 ./check $id --tier quick 2>&1)
    rc=$?
    echo "seed=$sd $id rc=$rc $(echo "$out" | tail -1 | cut -c1-200)"
    if [ $rc -ne 0 ]; then echo "$out" | grep -A3 "VIOLATION\|HARNESS" | cut -c1-1500 | head -30; fi
  done
done
