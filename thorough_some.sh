#!/bin/bash
# usage: ./thorough_some.sh C01 C03 ...   the thorough command of the named checks, one after the other
cd "$(dirname "$0")"
rc=0
for c in "$@"; do
  echo "=== $c $(date -u +%H:%M:%S)"
  ./check $c --tier thorough | tail -4
  r=${PIPESTATUS[0]}; echo "$c $r"; [ "$r" != 0 ] && rc=1
done
exit $rc
