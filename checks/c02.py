"""C02 - snapshot fidelity: a snapshot truthfully describes the paused frame.

Every snapshot delivered to the simulated service is compared with the recorder's independent reading of the frame
taken at the very event that fired it (same thread, same event): stack, app-frame flag and short path, which frames
carry variables, every variable's type / text / children, watches, tracepoint block, thread decoration, timestamp.
"""
import random

from simkit import common, snapcheck
from simkit.common import V
from simkit.refmodel import app_frame_rule
from . import snapcommon

ID = "C02"
LEVEL = "exploration"
BUDGET = {"quick": (2500, 35), "thorough": (600_000, 540)}
RULE = ("seeded value programs (scalars, nested containers, objects with public/protected/private attributes, "
        "exceptions, shared and cyclic references, 0-8 locals) x frame_type in {single_frame, all_frame, no_frame, "
        "absent, unknown} x watches over locals x APP_ROOT/IN_APP_INCLUDE/IN_APP_EXCLUDE settings x 1-3 hitting "
        "threads x stalls x seeded schedules; every delivered snapshot is an oracle instance; non-trivial = at "
        "least one snapshot compared; distinct = distinct (program, tracepoints, configuration) keys")
COMPONENTS = {"real": ["whole Deep agent", "collector/BFS", "push conversion + generated stubs", "PythonPlugin"],
              "stub": ["threads/clock/executor", "gRPC channel + DEEP service"]}
ASSUMPTIONS = ["exact comparison only below every collection limit (larger graphs are C05's subject)",
               "exact 'Size: n' wording, names of non-string keys and of name-mangled attributes not demanded",
               "a stall that exhausts the per-trigger time budget may remove variables (relaxed only when the "
               "snapshot's own duration exceeds the budget)"]
TEXT = ("Seeded exploration with an independent reference reading of the live frame as oracle, for every snapshot "
        "that reaches the simulated service through the real conversion and serialisation path.")
NOTE = "Trusts the reference renderer (refmodel/snapcheck), ~200 lines, itself exercised by seeded mutants."
TECHNIQUE = "deterministic simulation: live trace hook, reference-frame oracle on delivered snapshots"

FRAME_TYPES = ("single_frame", "single_frame", "all_frame", "no_frame", None, "bogus_frame")
CFGS = (
    {},
    {"APP_ROOT": "/simapp"},
    {"APP_ROOT": "/simapp/"},
    {"APP_ROOT": "/nowhere", "IN_APP_INCLUDE": ["/simapp/sim"]},
    {"APP_ROOT": "/simapp", "IN_APP_EXCLUDE": ["/simapp/simval"]},
    {"APP_ROOT": "/", "IN_APP_EXCLUDE": ["/verif", "/root"], "IN_APP_INCLUDE": ["/verif/simkit"]},
    {"APP_ROOT": "/elsewhere", "IN_APP_INCLUDE": ["/simapp/", "/sim"], "IN_APP_EXCLUDE": ["/simapp/x"]},
)


def generate(seed, tier):
    r = random.Random(seed)
    opts = {"n": r.randrange(0, 8), "sharing": r.random() < 0.3, "cycles": r.random() < 0.25}
    tps = []
    for i in range(r.choice((1, 1, 1, 2))):
        ft = r.choice(FRAME_TYPES)
        tp = {"id": "tp%d" % i, "line": r.choice(("mark", "mark", "after")), "via": r.choice(("service", "service", "direct")),
              "watches": [], "args": {}}
        if ft is not None:
            tp["args"]["frame_type"] = ft
        tp["watches"] = r.sample(("depth", "depth + 41", "ctx", "out", "len(ctx)", "G_HOST", "[depth, ctx]",
                                  "{'w': depth}", "str(depth) * 3", "ctx['c']", "depth / 4", "depth * 1.5", "G_HOST / 3",
                                  "depth + 100000",
                                  # an expression may bind a name of its own (:=): that name belongs to the expression,
                                  # it is not a name of the paused frame for the expressions evaluated after it
                                  "(w_tmp := depth + 7) * 2", "w_tmp"), r.choice((0, 0, 1, 2, 3)))
        tps.append(tp)
    return {"prog": {"seed": seed, "name": "simval_%d" % (seed % 5), "opts": opts}, "tps": tps,
            "threads": [r.choice((1, 1, 2)) for _ in range(r.choice((1, 1, 2, 3)))],
            "cfg": r.choice(CFGS), "knobs": common.draw_knobs(r, stall_ns=[1_000_000, 300_000_000], stall_p=r.choice((0, 0, 0.0003, 0.002)))}


def shrink_candidates(s):
    for cand in common.drop_one(s["tps"]):
        if cand:
            yield dict(s, tps=cand)
    if len(s["threads"]) > 1:
        for cand in common.drop_one(s["threads"]):
            yield dict(s, threads=cand)
    for i, tp in enumerate(s["tps"]):
        if tp["watches"]:
            t2 = dict(tp, watches=tp["watches"][:-1])
            yield dict(s, tps=s["tps"][:i] + [t2] + s["tps"][i + 1:])
    if s["cfg"]:
        yield dict(s, cfg={})
    o = s["prog"]["opts"]
    if o["n"]:
        yield dict(s, prog=dict(s["prog"], opts=dict(o, n=o["n"] - 1)))


def execute(scenario, ch):
    sc = dict(scenario, tps=[dict(t) for t in scenario["tps"]], ref_depth=6)
    sc["all_frames"] = any(t.get("args", {}).get("frame_type") == "all_frame" for t in scenario["tps"])
    k, cases, ctx = snapcommon.run_cases(sc, ch)
    if k.capped and not k.hang:
        return common.result(k, [])     # cut off by the step / time budget: a half-done run, inconclusive
    viol = []
    cfg = scenario.get("cfg") or {}
    app_root = cfg.get("APP_ROOT", "/simapp")
    incl = cfg.get("IN_APP_INCLUDE", [])
    import sys
    excl = cfg.get("IN_APP_EXCLUDE", [sys.exec_prefix])
    compared = 0
    if ctx.get("raised"):
        viol.append(V("trace-call-raised:%s" % ctx["raised"][0][5], str(ctx["raised"][0])))
    rec = ctx["rec"]
    for c in cases:
        cap, tp = c["cap"], c["tp"]
        if c["es"] is None:
            viol.append(V("no-snapshot", "%s at line %d: errors %s" % (tp["id"], cap["line"], c["errors"][:2])))
            continue
        snap = c["wire"]
        if snap is None:
            viol.append(V("not-delivered", "%s collected, not received; %s" % (tp["id"], [
                x for x in ctx["logs"] if x[0] == "ERROR"][:2])))
            continue
        compared += 1
        ft = tp.get("args", {}).get("frame_type")
        budget_ms = 100
        over_budget = snap.duration_nanos / 1e6 > budget_ms * 0.5
        # (a) frames
        stack = cap["stack"]
        if len(snap.frames) != len(stack):
            viol.append(V("stack-length", "snapshot %d frames, real stack %d" % (len(snap.frames), len(stack))))
        for fi, (fr, (fn, func, line, cls)) in enumerate(zip(snap.frames, stack)):
            if (fr.file_name, fr.method_name, fr.line_number) != (fn, func, line):
                viol.append(V("frame-header", "frame %d snapshot %s real %s" % (
                    fi, (fr.file_name, fr.method_name, fr.line_number), (fn, func, line))))
            if fr.class_name != (cls or ""):
                viol.append(V("frame-class-name", "frame %d (%s) snapshot %r real %r" % (fi, func, fr.class_name, cls)))
            app, short = app_frame_rule(fn, app_root, incl, excl)
            if bool(fr.app_frame) != app:
                viol.append(V("app-frame-flag", "%s: snapshot %s rule %s (cfg %s)" % (fn, fr.app_frame, app, cfg)))
            if fr.short_path != short:
                viol.append(V("short-path", "%s: snapshot %r rule %r (cfg %s)" % (fn, fr.short_path, short, cfg)))
            want_vars = (ft == "all_frame") or (ft != "no_frame" and fi == 0)
            if not want_vars and len(fr.variables):
                viol.append(V("variables-on-frame-without", "frame %d has %d variables with frame_type %s" % (
                    fi, len(fr.variables), ft)))
        if not snap.frames:
            continue
        # (b)+(c) variables of the frames that carry them
        g = cap["graph"]
        roots_all = []
        frames_to_check = []
        if ft != "no_frame":
            frames_to_check.append((0, cap["locals"]))
        if ft == "all_frame":
            for oi, (fl, rts) in enumerate(cap["outer"]):
                if fl is not None and oi + 1 < len(snap.frames):
                    frames_to_check.append((oi + 1, fl))
        for fi, real in frames_to_check:
            roots, issues = snapcheck.frame_roots(snap, fi, g, real)
            for iss in issues:
                if iss.code == "missing-local" and (over_budget or fi > 0 and not snap.frames[fi].variables and over_budget):
                    k.probe("relaxed_time_budget")
                    continue
                viol.append(V(iss.code + (":outer" if fi else ""), repr(iss)))
            roots_all += roots
        wroots, wiss = snapcommon.watch_roots(snap, cap, g)
        for iss in wiss:
            viol.append(V(iss.code, repr(iss)))
        res = snapcheck.walk(snap, roots_all + wroots, g, string_limit=1024, collection_limit=10)
        for iss in res.issues:
            viol.append(V(iss.code, repr(iss)))
        # completeness: nodes at depth <= 2 fully expanded (modulo the list cap), deeper all-or-none
        small = len(snap.var_lookup) < 600
        if small and not over_budget:
            for vid, missing in res.cut.items():
                node = res.matched[vid]
                d = res.depth_of_vid.get(vid, 9)
                have = res.children_of.get(node.serial, 0)
                capped = node.kind in ("seq", "set") and have == 10
                if capped:
                    continue
                if d <= 2 or have > 0:
                    viol.append(V("missing-child", "%s (depth %d, %s) lacks members %s" % (
                        vid, d, node.tname, missing[:5])))
        for iss in snapcheck.closure_issues(snap):
            viol.append(V("dangling-ref", repr(iss)))
        # (d) watches
        wexprs = [w_.expression for w_ in snap.watches if w_.source == 0]
        if wexprs != list(tp.get("watches", [])):
            viol.append(V("watch-list", "configured %s got %s" % (tp.get("watches"), wexprs)))
        # (e) tracepoint block
        t = snap.tracepoint
        if (t.ID, t.path, t.line_number) != (tp["id"], cap["basename"], cap["line"]):
            viol.append(V("tracepoint-block", "snapshot names %s configured %s" % (
                (t.ID, t.path, t.line_number), (tp["id"], cap["basename"], cap["line"]))))
        if list(t.watches) != list(tp.get("watches", [])):
            viol.append(V("tracepoint-watches", "%s vs %s" % (list(t.watches), tp.get("watches"))))
        for key, val in (tp.get("args") or {}).items():
            if key in t.args and t.args[key] != val:
                viol.append(V("tracepoint-arg-altered", "%s: %r reported, %r configured" % (key, t.args[key], val)))
        if tp.get("via") == "service":
            # the tracepoint as the service configured it: nothing dropped, nothing made up
            sent = dict({"fire_count": "-1", "fire_period": "-100000000"}, **(tp.get("args") or {}))
            if dict(t.args) != sent:
                viol.append(V("tracepoint-arguments", "snapshot reports %s, the service configured %s (missing %s, not configured %s)" % (
                    dict(t.args), sent, sorted(set(sent) - set(t.args)), sorted(set(t.args) - set(sent)))))
        # (f) thread decoration and timestamp
        attrs = {kv.key: kv.value.string_value for kv in snap.attributes}
        if attrs.get("thread_name") != cap["thread"]:
            viol.append(V("thread-name", "snapshot says %r, hit by %r" % (attrs.get("thread_name"), cap["thread"])))
        if attrs.get("tracepoint") != tp["id"]:
            viol.append(V("tracepoint-attribute", "%r" % attrs.get("tracepoint")))
        lo, hi = cap["now_ns"], rec.post_ns.get(cap["seq"], 1 << 62)
        if not (lo <= snap.ts_nanos <= hi):
            viol.append(V("timestamp-outside-event", "ts %d not in [%d, %d]" % (snap.ts_nanos, lo, hi)))
    k.probe("snapshots_compared", compared)
    key = repr((scenario["prog"], scenario["tps"], scenario["cfg"])) if compared else None
    return common.result(k, snapcommon.dedup(viol), key=key, sub=max(compared, 1))
