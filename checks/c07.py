"""C07 - the snapshot variable table is closed and de-duplicated by object identity.

Invariants on every snapshot of value programs with planted sharing, cycles, `locals()`, watches whose value is
already in the frame or is a fresh temporary, small variable budgets and several tracepoints on one event.
"""
import random

from simkit import common, snapcheck
from simkit.common import V
from . import snapcommon

ID = "C07"
LEVEL = "exploration"
BUDGET = {"quick": (2500, 35), "thorough": (600_000, 540)}
RULE = ("seeded value programs with planted sharing (one object under several names/containers), self- and mutually "
        "referential lists/dicts/objects, `x = locals()`, aliases; watches naming a local, a shared member or a fresh "
        "temporary; variable budgets {2,5,20,1000}; 1-2 tracepoints on the event; 1-2 threads; invariants: every "
        "reference resolves in the snapshot's own table, same id <=> same object (known from the reference graph); "
        "non-trivial = snapshot with at least one shared object or cycle; distinct = distinct scenarios")
COMPONENTS = {"real": ["whole Deep agent", "collector/BFS/identity cache", "push conversion"],
              "stub": ["threads/clock/executor", "gRPC channel + DEEP service"]}
ASSUMPTIONS = ["identity is Python object identity (`is`) at the instant of the event, read independently by the recorder"]
TEXT = ("Seeded exploration; closure and id<->object bijection checked by a parallel walk of the snapshot and the "
        "recorder's identity-preserving reference graph.")
NOTE = "Trusts refmodel.RefGraph (identity by id() of objects kept alive) and snapcheck.walk."
TECHNIQUE = "deterministic simulation: invariant monitoring on delivered snapshots vs reference graph"

WATCHES = ("depth", "ctx", "out", "[depth, ctx]", "[ctx, depth]", "{'w': depth}", "{'v': ctx}", "(depth, 1)", "(ctx, 2)",
           "str(depth) + 'x'", "str(depth) + 'y'", "list(ctx)", "dict(ctx)", "G_HOST", "P(1, 2)", "P(3, 4)",
           "depth / 4", "depth * 1.5", "depth / 8", "G_HOST / 3", "float(depth) + 0.25", "depth + 100000", "G_HOST * 7",
           # a registry of awkward values that only watches reach - as a whole, member by member, and wrapped again
           "G_REG", "G_REG['job']", "G_REG['n']", "[G_REG['job'], G_REG['ok']]", "G_REG['ok']", "G_REG['len']",
           "G_REG['all']", "(G_REG['len'], G_REG['n'])")


def generate(seed, tier):
    r = random.Random(seed)
    opts = {"n": r.randrange(1, 7), "sharing": True, "cycles": r.random() < 0.7}
    tps = []
    budget = r.choice((2, 5, 20, 1000, 1000))
    for i in range(r.choice((1, 1, 2))):
        tp = {"id": "tp%d" % i, "line": "mark", "via": "direct", "args": {},
              "watches": r.sample(WATCHES, r.choice((0, 1, 2, 3, 5)))}
        if budget != 1000:
            tp["limits"] = {"MAX_VARIABLES": budget}
        if r.random() < 0.2:
            tp["args"]["frame_type"] = "all_frame"
        if r.random() < 0.12:
            # a deferred snapshot whose log message breaks off after its first field (a stray brace): whatever becomes of
            # it, a snapshot that is sent is closed - the captured return value here is the very object the field produced
            tp.update(line="midcall", watches=[], via="service", args={"stage": "line_capture", "frame_type": "no_frame",
                                                        "log_msg": "n={len(m1) + 1} }"})
        tps.append(tp)
    return {"prog": {"seed": seed, "name": "simval_%d" % (seed % 5), "opts": opts}, "tps": tps,
            "threads": [1] if r.random() < 0.7 else [1, 1], "knobs": common.draw_knobs(r, stall_p=0.0)}


def shrink_candidates(s):
    for cand in common.drop_one(s["tps"]):
        if cand:
            yield dict(s, tps=cand)
    for i, tp in enumerate(s["tps"]):
        for wl in common.drop_one(tp["watches"]):
            yield dict(s, tps=s["tps"][:i] + [dict(tp, watches=wl)] + s["tps"][i + 1:])
    if len(s["threads"]) > 1:
        yield dict(s, threads=[1])


def execute(scenario, ch):
    sc = dict(scenario, tps=[dict(t) for t in scenario["tps"]], ref_depth=6)
    k, cases, ctx = snapcommon.run_cases(sc, ch)
    if k.capped and not k.hang:
        return common.result(k, [])     # cut off by the step / time budget: a half-done run, inconclusive
    viol = []
    shared_seen = 0
    if ctx.get("raised"):
        viol.append(V("trace-call-raised:%s" % ctx["raised"][0][5], str(ctx["raised"][0])))
    for c in cases:
        view, cap, tp = c["view"], c["cap"], c["tp"]
        if view is None:
            continue
        for iss in snapcheck.closure_issues(view):
            where = "frame" if iss.path.startswith("frame") else "child" if iss.path.startswith("var") else "watch"
            viol.append(V("dangling-ref:%s" % where, "%r (tp %s, watches %s)" % (iss, tp["id"], tp["watches"])))
        for w_ in view.watches:
            if w_.HasField("good_result") and not w_.good_result.ID:
                viol.append(V("watch-result-without-id", "%s" % w_.expression))
        if not view.frames:
            continue
        g = cap["graph"]
        roots, _ = snapcheck.frame_roots(view, 0, g, cap["locals"])
        wroots, _ = snapcommon.watch_roots(view, cap, g)
        # watches that build a fresh temporary must not be identified with anything else: give each its own node
        res = snapcheck.walk(view, roots + wroots, g, strict_text=False)
        for iss in res.issues:
            if iss.code.startswith("identity") or iss.code in ("dangling-ref", "phantom-child"):
                viol.append(V(iss.code, "%r (tp %s, watches %s)" % (iss, tp["id"], tp["watches"])))
        # was there sharing to detect?  (a reference node reachable along two paths)
        if res.edges > len(res.matched):
            shared_seen += 1
    # every snapshot the service received is closed - also those that were completed on a later event than the one that
    # triggered them (deferred: not paired with a capture above)
    judged = {id(c["view"]) for c in cases if c["view"] is not None}
    for hid, snaps in sorted(ctx.get("wire", {}).items()):
        for sn in snaps:
            if id(sn) in judged:
                continue
            for iss in snapcheck.closure_issues(sn):
                viol.append(V("dangling-ref:deferred", "%r (tp %s)" % (iss, sn.tracepoint.ID)))
    k.probe("snapshots_with_sharing", shared_seen)
    key = repr((scenario["prog"], scenario["tps"])) if shared_seen else None
    return common.result(k, snapcommon.dedup(viol), key=key)
