"""C20 - plugins are optional: ordered, skipped when inactive, isolated when faulty.

Generated plugin sets (custom recording plugins implementing any of the five plugin interfaces; unimportable names,
raising constructors, inactive or raising is_active, order values incl. None / equal / negative / raising; the
built-in PythonPlugin on or off) run a fixed workload (start, two hits of a tracepoint with snapshot + log + metric +
span, shutdown) twice in the simulator: fault-free, and with ONE plugin callback invocation raising.  Single fault
placements are enumerated (thorough) or sampled (quick).
"""
import random

from simkit import common, hostgen, host, world, shims, kernel, simplugins, seams
from simkit.common import V

ID = "C20"
LEVEL = "fault_enumeration"
BUDGET = {"quick": (2500, 35), "thorough": (300_000, 540)}
RULE = ("plugin sets of 1-5 custom plugins (kinds from {resource, decorator, logger, metric, span}; order in {int, None, "
        "equal, negative, raising}; active in {true, false, raising}; switched off/on by the PLUGIN_<NAME> setting written as 'false'/'no'/'0'/False/0/''/'true'; constructor raising; unimportable) x PythonPlugin "
        "on/off x the index j of the plugin callback invocation that raises (thorough: every j of every generated set "
        "= enumeration of single fault placements; quick: 3 sampled j per set); non-trivial = a "
        "run in which the injected callback fault actually fired; distinct = distinct (plugin set, fault placement)")
COMPONENTS = {"real": ["whole Deep agent incl. plugin loader, Deep.start/shutdown, all action contexts, PythonPlugin"],
              "stub": ["threads/clock/executor", "gRPC channel + DEEP service", "generated plugins (simkit.simplugins)"]}
ASSUMPTIONS = ["a failing plugin raises an Exception subclass (process-control BaseExceptions are not plugin failures)",
               "other plugins must receive at least the calls they received fault-free (a successor may inherit a role)"]
TEXT = ("Fault enumeration over (plugin, callback, call index) placements for generated plugin sets: everyone else's "
        "calls, decorations, spans (opened and closed) and shutdown are unchanged, the snapshot still arrives, start "
        "and shutdown return, nothing reaches the host.  Plugin sets are sampled, placements per set are complete in "
        "the thorough tier.")
NOTE = "Plugin callbacks run on the application thread in program order, so call index j denotes the same call in both runs."
TECHNIQUE = "deterministic simulation: single-fault enumeration over plugin callbacks, differential against fault-free run"

SRC = '''
def hit(i, name):
    x = i
    return x

def tmain(out):
    for i in range(2):
        out.append(hit(i, 'n%d' % i))
'''
KINDS = ("resource", "decorator", "logger", "metric", "span")


def gen_set(r):
    specs = []
    for i in range(r.randrange(1, 6)):
        kinds = sorted(r.sample(KINDS, r.randrange(1, 4)))
        sp = {"name": "Cp%d" % i, "kinds": kinds, "order": r.choice((0, 0, 1, 5, -3, None, "raise", "1", 2.5, "first", "@nan", "@badint",
                                                                           2 ** 63 - 1, 2 ** 63 - 2, 10 ** 400)),
              "active": r.choice((True, True, True, True, False, "raise")), "ctor_raise": r.random() < 0.08,
              # what goes wrong at import: nothing / the module is missing / the module imports but has no such class /
              # the name is not a dotted path at all
              "import_ok": r.choice((True,) * 11 + ("no-module", "no-class", "no-dot"))}
        if r.random() < 0.15:
            sp["own_tp"] = True     # registers a tracepoint of its own when constructed, removes it in its shutdown
        if sp["active"] is True and r.random() < 0.3:
            # switched off (or explicitly on) through the PLUGIN_<NAME> setting, in any of the forms a user may write
            sp["switch"] = r.choice(("false", "False", "no", "0", False, 0, "", "true", "True", "yes", True, 1))
        specs.append(sp)
    return specs


def generate(seed, tier):
    r = random.Random(seed // (60 if tier == "thorough" else 1))
    specs = gen_set(r)
    r2 = random.Random(seed)
    if tier == "thorough":
        js = [seed % 60 + 1]          # the same set for 60 consecutive seeds, each with its own fault index
    else:
        js = [r2.randrange(1, 70) for _ in range(3)]
    return {"specs": specs, "python_plugin": r.random() < 0.6, "js": js, "restart": r.random() < 0.35,
            "knobs": {"p_switch": 0.0, "cost_ns": 1000, "clock_step_ns": 2000, "stall_p": 0.0}}


def shrink_candidates(s):
    for cand in common.drop_one(s["specs"]):
        if cand:
            yield dict(s, specs=cand)
    if len(s["js"]) > 1:
        for cand in common.drop_one(s["js"]):
            yield dict(s, js=cand)
    if s.get("restart"):
        yield dict(s, restart=False)
    for i, sp in enumerate(s["specs"]):
        for cand in common.drop_one(sp["kinds"]):
            if cand:
                yield dict(s, specs=s["specs"][:i] + [dict(sp, kinds=cand)] + s["specs"][i + 1:])


def _expected_order(specs, python_plugin):
    items = []
    if python_plugin:
        items.append(("PythonPlugin", 0))
    for sp in specs:
        if sp["import_ok"] is not True or sp["ctor_raise"] or sp["active"] is not True:
            continue
        if "switch" in sp and str(sp["switch"]).lower() not in ("true", "yes", "t", "1", "y"):
            continue        # switched off by configuration
        o = sp["order"]
        if o in ("@nan", "@badint"):
            o = None       # a number by type that cannot be ordered: default order, like any other unusable value
        # a value that is not a number cannot be a sort key among numbers: default order, like a failing order()
        items.append((sp["name"], o if isinstance(o, (int, float)) else 0))
    return [n for n, _ in sorted(items, key=lambda x: x[1])]


def execute(s, ch):
    viol = []
    info = {"fired": 0, "M": 0}

    def main(k):
        from deep.api.tracepoint.tracepoint_config import MetricDefinition
        from deepproto.proto.tracepoint.v1 import tracepoint_pb2 as tpb
        p = hostgen.start_program("simplug", prelude=False)
        for ln in SRC.strip("\n").split("\n"):
            p.lines.append(ln)
        p.finish()

        def one_run(fault_at):
            seams.reset_process_state()
            plugs = []
            for sp in s["specs"]:
                d = {"name": sp["name"], "kinds": sp["kinds"], "decorate": {"deco_" + sp["name"]: sp["name"]},
                     "resource": {"res_" + sp["name"]: sp["name"]}}
                if sp["order"] != "raise":
                    d["order"] = sp["order"]
                if sp["active"] is not True and sp["active"] != "raise":
                    d["active"] = sp["active"]
                if sp.get("own_tp"):
                    d["own_tp"] = True
                plugs.append(d)
            switches = {("PLUGIN_%s" % sp["name"]).upper(): sp["switch"] for sp in s["specs"] if "switch" in sp}
            w = world.World(k, cfg=switches, plugins=plugs, python_plugin=s["python_plugin"])
            names = list(w.custom.get("PLUGINS", []))
            for i, sp in enumerate(s["specs"]):
                if sp["import_ok"] is not True:
                    names[i] = {"no-module": "simkit.no_such_module.%s", "no-class": "simkit.simplugins.NoSuch%s",
                                "no-dot": "JustAName%s", False: "simkit.no_such_module.%s"}[sp["import_ok"]] % sp["name"]
                    k.fault("plugin_unloadable:%s" % (sp["import_ok"] or "no-module"))
                f = w.sink.faults.setdefault(sp["name"], {})
                if sp["order"] == "raise":
                    f["order"] = "all"
                if sp["active"] == "raise":
                    f["is_active"] = "all"
                if sp["ctor_raise"]:
                    f["__init__"] = "all"
            w.custom["PLUGINS"] = names
            w.sink.global_fault_at = fault_at
            rec = host.Recorder(k).attach(w)
            rec.install()
            res = {"start": "ok", "shutdown": "ok", "w": w, "rec": rec}
            try:
                w.start()
            except kernel.SimKilled:
                raise
            except BaseException as e:  # noqa
                res["start"] = "%s: %s" % (type(e).__name__, e)
                w.close()
                return res
            k.settle()
            res["loaded"] = [pl.name for pl in w.config.plugins]
            args = {"fire_count": "-1", "fire_period": "0", "log_msg": "plug {i}", "span": "line"}
            # a second tracepoint on the NEXT line: the span of the first one is closed on that line's event, before
            # the tracepoints of that event are processed - a failing close must not cost them
            args2 = {"fire_count": "-1", "fire_period": "0", "log_msg": "next {x}", "snapshot": "no_collect"}
            w.service.set_config([w.service.make_tp("tpP", p.basename, 2, args, ["name"], [
                tpb.Metric(name="m_plug", type=tpb.MetricType.COUNTER)]),
                w.service.make_tp("tpQ", p.basename, 3, args2, [], [tpb.Metric(name="m_next", type=tpb.MetricType.GAUGE)])],
                "h1")
            w.deep.poll.poll()
            common.wait_until(k, lambda: len(w.handler._tp_config) > 0, 30)
            g = p.load()
            out = []
            try:
                g["tmain"](out)
            except kernel.SimKilled:
                raise
            except BaseException as e:  # noqa
                res["host_raised"] = "%s: %s" % (type(e).__name__, e)
            res["out"] = out
            common.wait_delivery(k, w, 30)
            try:
                w.deep.shutdown()
            except kernel.SimKilled:
                raise
            except BaseException as e:  # noqa
                res["shutdown"] = "%s: %s" % (type(e).__name__, e)
            res["started"] = w.deep.started
            if s.get("restart") and fault_at is None and res["shutdown"] == "ok":
                # a second life of the same agent: the plugins are loaded afresh, and the agent starts and stops again
                k.fault("restart")
                ncalls = len(w.sink.calls)
                try:
                    w.start()
                    k.settle()
                    res["loaded_again"] = [pl.name for pl in w.config.plugins]
                    w.deep.shutdown()
                except kernel.SimKilled:
                    raise
                except BaseException as e:  # noqa
                    res["restart"] = "%s: %s" % (type(e).__name__, e)
                del w.sink.calls[ncalls:]
                if w.sink.stale:
                    res["restart"] = "callbacks on plugin instances of the first life: %s" % w.sink.stale[:3]
            res["calls"] = [(c[1], c[2]) for c in w.sink.calls]
            res["fired"] = list(w.sink.fired)
            res["snaps"] = [{kv.key: kv.value.string_value for kv in sn.attributes} for (_, _, sn, _) in w.service.snapshots]
            res["spans"] = [(sp_["plugin"], len(sp_["closes"])) for sp_ in w.sink.spans]
            res["resource"] = dict(w.service.polls[-1][4]) if w.service.polls else {}
            res["raised"] = list(rec.raised)
            w.close()
            return res

        base = one_run(None)
        ctx = "plugins %s python_plugin=%s" % ([(sp["name"], "".join(k_[0] for k_ in sp["kinds"]), sp["order"], sp["active"],
                                                 "ctor!" if sp["ctor_raise"] else "", "" if sp["import_ok"] is True else str(sp["import_ok"] or "noimport"))
                                                for sp in s["specs"]], s["python_plugin"])
        if base["start"] != "ok":
            viol.append(V("start-raised:%s" % base["start"].split(":")[0], "%s; %s" % (base["start"], ctx)))
            return
        exp_loaded = _expected_order(s["specs"], s["python_plugin"])
        if base["loaded"] != exp_loaded:
            kind = "order" if sorted(base["loaded"]) == sorted(exp_loaded) else "set"
            viol.append(V("loaded-plugins-wrong-%s" % kind, "loaded %s, expected %s; %s" % (base["loaded"], exp_loaded, ctx)))
        if base.get("restart"):
            viol.append(V("restart-raised:%s" % base["restart"].split(":")[0], "%s; %s" % (base["restart"], ctx)))
        elif "loaded_again" in base and base["loaded_again"] != base["loaded"]:
            viol.append(V("loaded-plugins-differ-after-restart", "%s then %s; %s" % (base["loaded"], base["loaded_again"], ctx)))
        if base["shutdown"] != "ok":
            viol.append(V("shutdown-raised:%s" % base["shutdown"].split(":")[0], "%s; %s" % (base["shutdown"], ctx)))
        for r_ in base["raised"]:
            viol.append(V("trace-call-raised:%s" % r_[5], str(r_)))
        if len(base["snaps"]) != 2:
            viol.append(V("baseline-snapshots:%d" % len(base["snaps"]), ctx))
        M = len(base["calls"])
        info["M"] = M
        for j in [j for j in s["js"] if j <= M]:
            victim, cb = base["calls"][j - 1]
            # inject: the j-th plugin callback invocation of the run raises
            res = one_run((j, "Exception"))
            if not res.get("fired") and res["start"] == "ok":
                continue
            info["fired"] += 1
            where = "%s" % cb
            if res["start"] != "ok":
                viol.append(V("start-raised-on-plugin-fault:%s" % where, "%s raising in %s: Deep.start raised %s; %s" % (
                    victim, cb, res["start"], ctx)))
                continue
            if res["shutdown"] != "ok":
                viol.append(V("shutdown-raised-on-plugin-fault:%s" % where, "%s.%s: %s" % (victim, cb, res["shutdown"])))
            if res.get("host_raised") or res["raised"]:
                viol.append(V("plugin-fault-reached-host:%s" % where, "%s %s" % (res.get("host_raised"), res["raised"][:1])))
            if res.get("out") != base.get("out"):
                viol.append(V("host-output-differs-on-plugin-fault:%s" % where, "%s vs %s" % (res.get("out"), base.get("out"))))
            if res["started"]:
                viol.append(V("still-started-after-shutdown:%s" % where, victim))
            # everyone else's calls
            def counts(calls):
                d = {}
                for pl, c in calls:
                    d[(pl, c)] = d.get((pl, c), 0) + 1
                return d
            cb_base, cb_res = counts(base["calls"]), counts(res["calls"])
            for (pl, c), n in sorted(cb_base.items()):
                if pl == victim:
                    continue
                if cb == "order" and c == "log_tracepoint":
                    # the tracepoint logger is THE first logger in plugin order: a plugin whose order() failed is placed
                    # by the default order and may legitimately become (or stop being) the elected logger
                    continue
                if cb_res.get((pl, c), 0) < n:
                    viol.append(V("other-plugin-lost-calls:%s-fault-hides-%s" % (where, c),
                                  "%s raising in %s (call %d/%d): %s.%s called %d times, %d fault-free; %s" % (
                                      victim, cb, j, M, pl, c, cb_res.get((pl, c), 0), n, ctx)))
            # snapshots still arrive with the others' decorations
            if len(res["snaps"]) != len(base["snaps"]):
                viol.append(V("snapshot-lost-on-plugin-fault:%s" % where, "%d of %d snapshots arrived (%s.%s raised)" % (
                    len(res["snaps"]), len(base["snaps"]), victim, cb)))
            else:
                for a, b in zip(res["snaps"], base["snaps"]):
                    for key, val in b.items():
                        if key == "deco_" + victim or key in ("context",):
                            continue
                        if a.get(key) != val:
                            viol.append(V("decoration-lost-on-plugin-fault:%s" % where, "attribute %s=%r missing/changed "
                                          "(%r) when %s.%s raised" % (key, val, a.get(key), victim, cb)))
                    if not a.get("context") or a.get("tracepoint") != "tpP":
                        viol.append(V("snapshot-core-attributes-missing:%s" % where, str(a)))
            # spans of the other processors: opened and closed as before
            def span_stats(spans):
                d = {}
                for pl, ncl in spans:
                    o, c = d.get(pl, (0, 0))
                    d[pl] = (o + 1, c + ncl)
                return d
            sb, sr = span_stats(base["spans"]), span_stats(res["spans"])
            for pl, (o, c) in sorted(sb.items()):
                if pl == victim:
                    continue
                ro, rc = sr.get(pl, (0, 0))
                if ro < o:
                    viol.append(V("other-span-not-opened:%s" % where, "%s opened %d spans, %d fault-free (%s.%s raised)" % (
                        pl, ro, o, victim, cb)))
                elif rc != ro:
                    viol.append(V("other-span-not-closed:%s" % where, "%s opened %d spans and closed %d (%s.%s raised)" % (
                        pl, ro, rc, victim, cb)))
            # resource: the others' attributes are still there
            for key, val in base["resource"].items():
                if key == "res_" + victim:
                    continue
                if res["resource"].get(key) != val and key.startswith("res_"):
                    viol.append(V("resource-attribute-lost:%s" % where, "%s (%s.%s raised)" % (key, victim, cb)))
        k.probe("callbacks_in_fault_free_run", M)
        k.probe("single_faults_injected", info["fired"])

    k = common.run_in_kernel(ch, s["knobs"], main)
    key = repr((s["specs"], s["python_plugin"], s["js"])) if info["fired"] else None
    seen, vs = set(), []
    for v in viol:
        if v["sig"] not in seen:
            seen.add(v["sig"])
            vs.append(v)
    return common.result(k, vs, key=key, sub=max(info["fired"], 1))
