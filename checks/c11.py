"""C11 - tracepoint configuration is interpreted as documented, one tracepoint at a time.

Poll responses are generated, served by the simulated service, polled by the real LongPoll, applied by the real update
task, and a probe program is run under the live trace hook; effects at the sinks are compared with a reference table
written from the statement.  The single-tracepoint argument table is ENUMERATED (thorough) or sampled (quick); lists of
2-5 tracepoints in one response (same / different locations, one uninterpretable among good ones) are sampled.
"""
import random

from simkit import common, hostgen, host, world, shims, kernel
from simkit.common import V
from simkit.refmodel import RefLimiter

ID = "C11"
LEVEL = "exploration"
BUDGET = {"quick": (1200, 35), "thorough": (400_000, 540)}
EXHAUSTIVE = False
DIMS = (
    ("stage", (None, "line_start", "line_end", "line_capture", "method_start", "method_end", "method_capture", "bogus_stage")),
    ("method_name", (None, "target")),
    ("span", (None, "line", "method")),
    ("snapshot", (None, "collect", "no_collect", "bogus")),
    ("log_msg", (None, "yes")),
    ("condition", (None, "flag")),
    ("fire_count", (None, "2", "-1")),
    ("frame_type", (None, "all_frame", "no_frame")),
    ("watches", (0, 1)),
    ("metrics", (0, 1, 2)),
)
TABLE = 1
for _n, _v in DIMS:
    TABLE *= len(_v)
CHUNK = 48
N_CHUNKS = (TABLE + CHUNK - 1) // CHUNK
RULE = ("single-tracepoint argument table of %d combinations (stage x method_name x span x snapshot x log_msg x condition "
        "x fire_count x frame_type x watches x metrics, with valid, absent and unknown values), %d per simulated run: "
        "the thorough tier covers the whole table (seed index < %d), the quick tier a seeded sample; then sampled "
        "responses of 2-5 tracepoints; each combination is probed with 3 hits (condition true on hits 0 and 2); "
        "non-trivial = a combination for which at least one action was expected; distinct = distinct combinations" % (
            TABLE, CHUNK, N_CHUNKS))
COMPONENTS = {"real": ["whole Deep agent: LongPoll, convert_response, build_trigger, update task, live trace hook"],
              "stub": ["threads/clock/executor", "gRPC channel + DEEP service", "recording plugins"]}
ASSUMPTIONS = ["method stages without method_name are not demanded (only C01 applies to them)",
               "which of start/end/capture timing a snapshot uses is C15's subject",
               "unknown values of span are not generated"]
TEXT = ("Exhaustive enumeration of the single-tracepoint argument table in the thorough tier (sampled in quick), each "
        "combination driven through the real poll/convert/install path and probed behaviourally; sampled multi-"
        "tracepoint responses for independence and for 'an uninterpretable tracepoint affects only itself'.")
NOTE = "The reference table is 40 lines written from the statement and docs/; effects are attributed per trace event."
TECHNIQUE = "deterministic simulation: table enumeration through the simulated service, behavioural probe vs reference table"

SRC = '''
def target(i, flag):
    x = i
    return x

def tmain(out):
    for i in range(3):
        tick()
        out.append(target(i, i != 1))
'''
TP_LINE = 2


def combo_of(index):
    c = {}
    for name, vals in DIMS:
        index, j = divmod(index, len(vals))
        c[name] = vals[j]
    return c


def generate(seed, tier):
    r = random.Random(seed)
    idx = seed % 1_000_000
    if tier == "thorough" and idx < N_CHUNKS:
        return {"arm": "table", "combos": list(range(idx * CHUNK, min((idx + 1) * CHUNK, TABLE))),
                "knobs": {"p_switch": 0.0, "cost_ns": 1000, "clock_step_ns": 2000, "stall_p": 0.0, "trace_self": False}}
    if r.random() < 0.6:
        return {"arm": "table", "combos": sorted(r.sample(range(TABLE), CHUNK)),
                "knobs": common.draw_knobs(r, stall_p=0.0)}
    lists = []
    for _ in range(6):
        n = r.randrange(2, 6)
        tps = []
        for i in range(n):
            tps.append({"combo": r.randrange(TABLE), "line": r.choice((2, 2, 3))})
            if r.random() < 0.3:
                tps[-1]["via"] = "register"      # registered in code next to the ones the service sent
        if r.random() < 0.5:
            # one tracepoint the agent cannot interpret: an unknown stage, or a metric of a type it does not know
            tps[r.randrange(n)]["force_bad"] = r.choice((True, "metric"))
        lists.append(tps)
    return {"arm": "lists", "lists": lists, "knobs": common.draw_knobs(r, stall_p=0.0)}


def shrink_candidates(s):
    if s["arm"] == "table":
        for cand in common.drop_one(s["combos"]):
            if cand:
                yield dict(s, combos=cand)
    else:
        for cand in common.drop_one(s["lists"]):
            if cand:
                yield dict(s, lists=cand)
        for li, tps in enumerate(s["lists"]):
            for cand in common.drop_one(tps):
                if cand:
                    yield dict(s, lists=s["lists"][:li] + [cand] + s["lists"][li + 1:])


def build_args(tp_id, c):
    args = {}
    if c.get("_period0"):
        # lists arm: hits are 2 s apart anyway; without a period two actions on ONE hit are both visible
        args["fire_period"] = "0"
    for key in ("stage", "method_name", "span", "snapshot", "condition", "fire_count", "frame_type"):
        if c[key] is not None:
            args[key] = c[key]
    if c["log_msg"]:
        args["log_msg"] = "L%s {i}" % tp_id
    return args, (["i"] if c["watches"] else [])


def build(svc, tp_id, c, basename, line, tpb):
    args, watches = build_args(tp_id, c)
    metrics = [tpb.Metric(name="m%s_%d" % (tp_id, j), type=(tpb.MetricType.COUNTER, tpb.MetricType.GAUGE)[j])
               for j in range(c["metrics"])]
    if c.get("_odd_metric"):
        metrics.append(tpb.Metric(name="m%s_odd" % tp_id, type=99))      # enums are open on the wire
    return svc.make_tp(tp_id, basename, line, args, watches, metrics)


def reference(c, line):
    """-> None (not demanded) or dict: where ('line', n) / ('call',) / None (uninterpretable), and actions."""
    stage = c["stage"]
    if stage == "bogus_stage" or c.get("_odd_metric"):
        return {"where": None}
    if stage is not None:
        kind = "line" if stage.startswith("line") else "method"
    elif c["method_name"] is not None or c["span"] == "method":
        kind = "method"
    else:
        kind = "line"
    if kind == "method" and c["method_name"] is None:
        return None          # nameless method tracepoint: not demanded
    acts = []
    if c["snapshot"] != "no_collect":
        acts.append("snapshot")
    if c["log_msg"]:
        acts.append("log")
    acts += ["metric"] * c["metrics"]
    if c["span"] is not None:
        acts.append("span")
    return {"where": ("line", line) if kind == "line" else ("call",), "acts": acts}


def execute(s, ch):
    viol = []
    info = {"checked": 0, "nontrivial": 0}

    def main(k):
        from deepproto.proto.tracepoint.v1 import tracepoint_pb2 as tpb
        p = hostgen.start_program("simtable", prelude=False)
        for ln in SRC.strip("\n").split("\n"):
            p.lines.append(ln)
        p.finish()
        w = world.World(k, plugins=[{"name": "RecAll", "kinds": ["logger", "metric", "span"]}], python_plugin=False)
        rec = host.Recorder(k).attach(w)
        rec.install()
        w.start()
        k.settle()

        def tick():
            k.now_ns += 2_000_000_000
        g = p.load({"tick": tick})
        groups = []
        label_of = {}
        if s["arm"] == "table":
            for ci in s["combos"]:
                groups.append([{"combo": ci, "line": TP_LINE}])
        else:
            groups = s["lists"]
        for gi, tps in enumerate(groups):
            protos = []
            refs = {}
            in_code = []
            for ti, tp in enumerate(tps):
                c = combo_of(tp["combo"])
                if s["arm"] == "lists":
                    c["_period0"] = True
                if tp.get("force_bad") == "metric" and tp.get("via") != "register":
                    c["_odd_metric"] = True
                elif tp.get("force_bad"):
                    c["stage"] = "bogus_stage"
                tp_id = "g%dt%d" % (gi, ti)
                if tp.get("via") == "register":
                    in_code.append((tp_id, c, tp["line"]))
                    continue
                protos.append(build(w.service, tp_id, c, p.basename, tp["line"], tpb))
                refs[tp_id] = (c, reference(c, tp["line"]), tp["line"])
            w.service.set_config(protos, "h%d" % (gi + 1))
            try:
                w.deep.poll.poll()
            except kernel.SimKilled:
                raise
            except BaseException as e:  # noqa
                viol.append(V("poll-raised:%s" % type(e).__name__, "%r for response %s" % (e, [
                    (i_, dict(pr.args)) for i_, pr in enumerate(protos)])))
                continue
            k.settle()
            # the ones registered in code: the same arguments through Deep.register_tracepoint; told apart by the id of
            # the registration; an uninterpretable one may be refused, and then does nothing
            handles = []
            from deep.api.tracepoint.tracepoint_config import MetricDefinition
            for (label, c, line) in in_code:
                args, watches = build_args(label, c)
                ms = [MetricDefinition("m%s_%d" % (label, j), ("COUNTER", "GAUGE")[j]) for j in range(c["metrics"])]
                try:
                    h = w.deep.register_tracepoint(p.basename, line, args, watches, ms)
                except kernel.SimKilled:
                    raise
                except BaseException as e:  # noqa
                    if reference(c, line) is not None and reference(c, line)["where"] is not None:
                        viol.append(V("register-raised:%s" % type(e).__name__, "%r for %s" % (e, args)))
                    continue
                handles.append(h)
                rid = h._TracepointRegistration__id
                for (cc, rr, ll) in [(c, reference(c, line), line)]:
                    refs[rid] = (cc, rr, ll)
                    label_of[rid] = label
            k.settle()
            ev0 = len(rec.events)
            eff0 = len(rec.all_effects)
            out = []
            t = shims.SimThread(target=lambda: g["tmain"](out), name="app%d" % gi)
            t.start()
            t.join()
            common.wait_delivery(k, w, 20)
            if out != [0, 1, 2]:
                viol.append(V("host-output-changed", str(out)))
            if rec.raised:
                viol.append(V("trace-call-raised:%s" % rec.raised[0][5], str(rec.raised[0])))
                del rec.raised[:]
            # effects per tracepoint id and hit
            got = {}
            hit_of_event = {}
            hit = -1
            for e in rec.events[ev0:]:
                if e[2] == "call" and e[5] == "target":
                    hit += 1
                hit_of_event[e[0]] = hit
            for (seq, th, kind, tp_id, payload) in rec.all_effects[eff0:]:
                if kind == "span_close":
                    continue
                ev = rec.events[seq]
                ident = None
                if kind == "snapshot":
                    ident = tp_id
                elif kind == "log":
                    ident = payload[1] if payload[1] in refs else next((i_ for i_ in refs if ("L%s " % label_of.get(i_, i_)) in payload[0]), None)
                elif kind == "metric":
                    ident = next((i_ for i_ in refs if payload[2].startswith("m%s_" % label_of.get(i_, i_))), None)
                elif kind == "span":
                    ident = tp_id
                got.setdefault(ident, []).append((kind, hit_of_event.get(seq), ev[2], ev[4], payload))
            if None in got or any(i_ not in refs for i_ in got):
                viol.append(V("effect-of-unknown-tracepoint", str({k_: [(x[0], x[1]) for x in v_] for k_, v_ in got.items()
                                                                   if k_ not in refs})[:300]))
            for tp_id, (c, ref, line) in refs.items():
                if ref is None:
                    continue
                info["checked"] += 1
                mine = got.get(tp_id, [])
                desc = {k_: v_ for k_, v_ in c.items() if v_ not in (None, 0) and k_ != "_period0"}
                if ref["where"] is None:
                    if mine:
                        viol.append(V("uninterpretable-tracepoint-acted", "%s: %s" % (desc, [(x[0], x[1]) for x in mine])))
                    continue
                info["nontrivial"] += 1
                # placement
                for kind, h, evk, evl, payload in mine:
                    ok = (evk == "line" and evl == line) if ref["where"][0] == "line" else (evk == "call")
                    if kind == "snapshot" and c["stage"] in ("line_capture", "method_capture"):
                        # a capture stage collects at the trigger and hands the snapshot over when the line / the method
                        # ends: after `x = i` (line 2) that is the next line event, after `return x` and for the method
                        # it is the return event - which then also supplies the captured value
                        by_return = evk == "return" and evl == 3
                        ok = by_return if (c["stage"] == "method_capture" or line == 3) else (evk == "line" and evl == 3)
                        caps = [w_.expression for w_ in payload.watches if w_.source == "CAPTURE"]
                        if ok and caps != (["return"] if by_return else []):
                            viol.append(V("snapshot-capture", "%s: handed over at %s:%s with captured results %s" % (
                                desc, evk, evl, caps)))
                    if not ok:
                        viol.append(V("acted-at-wrong-place:%s" % kind, "%s fired at %s:%s, expected %s" % (desc, evk, evl, ref["where"])))
                # counts per action kind with the tracepoint's own limits and condition
                fc = c["fire_count"] if c["fire_count"] is not None else 1
                for kind in sorted(set(ref["acts"]) | {x[0] for x in mine}):
                    lim = RefLimiter(fc, 1000)
                    want_hits = [h for h in range(3) if lim.hit(h * 2_000_000_000 + 1, condition=(c["condition"] is None or h != 1))]
                    per = ref["acts"].count(kind)
                    got_hits = sorted(x[1] for x in mine if x[0] == kind)
                    want = sorted(h for h in want_hits for _ in range(per))
                    if got_hits != want:
                        if per == 0:
                            sig = "unrequested-%s" % kind
                        elif len(got_hits) < len(want):
                            sig = "missing-%s" % kind
                        else:
                            sig = "extra-%s" % kind
                        multi = ":in-list" if len(refs) > 1 else ""
                        viol.append(V(sig + multi, "%s (line %d): %s on hits %s, expected on hits %s; others in the response: %s" % (
                            desc, line, kind, got_hits, want, [dict((a, b) for a, b in refs[o][0].items() if b not in (None, 0))
                                                               for o in refs if o != tp_id][:3])))
                # snapshot content: watches and frame_type
                for kind, h, evk, evl, es in mine:
                    if kind != "snapshot":
                        continue
                    wn = [w_.expression for w_ in es.watches if w_.source == "WATCH"]
                    if wn != (["i"] if c["watches"] else []):
                        viol.append(V("snapshot-watches", "%s: %s" % (desc, wn)))
                    has_vars = bool(es.frames and es.frames[0].variables)
                    if has_vars != (c["frame_type"] != "no_frame"):
                        viol.append(V("snapshot-frame-type", "%s: top frame has variables: %s" % (desc, has_vars)))
                    if es.tracepoint.id != tp_id:
                        viol.append(V("snapshot-names-other-tracepoint", "%s vs %s" % (es.tracepoint.id, tp_id)))
            for h in handles:
                try:
                    h.unregister()
                except kernel.SimKilled:
                    raise
                except BaseException as e:  # noqa
                    viol.append(V("unregister-raised:%s" % type(e).__name__, repr(e)))
            if handles:
                k.probe("registered_in_code", len(handles))
                k.settle()
        k.probe("combinations_checked", info["checked"])
        w.deep.shutdown()
        w.close()

    k = common.run_in_kernel(ch, s["knobs"], main)
    key = repr(s.get("combos") or s.get("lists")) if info["nontrivial"] else None
    seen, vs = set(), []
    for v in viol:
        if v["sig"] not in seen:
            seen.add(v["sig"])
            vs.append(v)
    return common.result(k, vs, key=key, sub=max(info["checked"], 1))
