"""C04 - rate limiting: fire_count, fire_period and the time window are never exceeded.

Arm "seq": one thread hits one tracepoint h times; the harness steers the wall clock so that hit timestamps land on
generated gaps, including exactly on the period boundary, one ns either side, zero and backwards jumps; the set of
collecting hits must EQUAL a reference limiter's (safety and "a hit that may collect does collect").
Arm "race": 2-6 threads hit the same action at once, in mode D (trace_call called directly on a live caller frame
with a pre-emption point at every line of agent code) or live through the trace hook; safety oracle only.
"""
import os
import random
import sys

from simkit import common, hostgen, host, world, shims, kernel, linetrace, seams
from simkit.common import V
from simkit.refmodel import RefLimiter

ID = "C04"
LEVEL = "exploration"
BUDGET = {"quick": (3000, 35), "thorough": (1_000_000, 540)}
RULE = ("arm seq: hit histories of 2-14 hits on a steered virtual clock (gaps incl. period boundary -1/0/+1 ns, 0, "
        "backwards) x fire_count in {-1,0,1,2,5,'','abc',' 3 ','1.5'} x fire_period likewise x time windows x "
        "snapshot/log/metric/span actions, installed through the service or directly; arm race: 2-6 threads on one "
        "action under seeded line-level (mode D) or seam-level (live) schedules, targeted switches after the limit "
        "check; non-trivial = history in which the limiter both admitted and rejected a hit, or a race in which >=2 "
        "threads were inside the action concurrently; distinct = distinct (settings, history, outcome) keys")
COMPONENTS = {"real": ["whole Deep agent (seq, live race)", "TriggerHandler + contexts + collector (mode D race)"],
              "stub": ["threads/clock/executor", "gRPC channel + DEEP service", "recording plugins"]}
ASSUMPTIONS = ["which thread wins a race and the exact count under a backwards clock step are not demanded",
               "the hit timestamp is the first clock read of the trigger (one per trace event)"]
TEXT = ("Seeded exploration of hit histories on a virtual clock against a reference limiter (equality sequentially, "
        "safety concurrently) with controlled thread interleavings down to single lines of agent code.")
NOTE = ("Trusts the kernel clock seam and RefLimiter (30 lines); races below line granularity are out of reach; a hit "
        "stamped before an already recorded collection and a period away from all of them is not decided either way.")
TECHNIQUE = "deterministic simulation: virtual clock + seeded line-level schedules vs reference limiter"

COUNTS = ("-1", "0", "1", "1", "2", "5", "", "abc", " 3 ", "1.5", None)
PERIODS = ("0", "1", "1000", "1000", "10", "", "abc", "250", None)

SEQ_SRC = '''
def hit(i, flag):
    x = i * 2
    return x

def tmain(tid, n, out):
    for i in range(n):
        tick(i)
        out.append(hit(i, i % 2 == 0))
'''
RACE_SRC = '''
def hit(i, tid):
    x = i * 2
    probe()
    return x

def tmain(tid, n, out):
    for i in range(n):
        out.append(hit(i, tid))
'''


def generate(seed, tier):
    r = random.Random(seed)
    arm = "seq" if r.random() < 0.55 else "race"
    fc = r.choice(COUNTS)
    fp = r.choice(PERIODS)
    kind = r.choice(("snapshot", "snapshot", "log", "metric", "span"))
    s = {"arm": arm, "fire_count": fc, "fire_period": fp, "kind": kind, "knobs": common.race_knobs(r, stall_p=0.0)}
    if arm == "seq":
        n = r.randrange(2, 15)
        gaps = []
        for _ in range(n):
            k = r.random()
            if k < 0.3:
                gaps.append(["boundary", r.choice((-1, 0, 1))])
            elif k < 0.4:
                gaps.append(["rel", 0])
            elif k < 0.5:
                gaps.append(["rel", -r.choice((1, 10**6, 10**10))])
            else:
                gaps.append(["rel", r.choice((1, 999_999, 10**6, 10**7, 5 * 10**8, 10**9, 2 * 10**9))])
        s["gaps"] = gaps
        # the collection itself fails part-way on every hit (malformed log template, after frames and watches were
        # collected): it is still a collection and counts against the limits
        s["failing"] = kind in ("snapshot", "log") and r.random() < 0.2
        s["via"] = r.choice(("service", "direct"))
        s["window"] = r.choice((None, None, None, "start", "end", "both", "arg-past", "arg-future", "arg-negative"))
        if s["window"] in ("start", "end", "both"):
            s["via"] = "direct"
            s["kind"] = "snapshot"
        # the service publishes a new configuration in which this tracepoint is unchanged (another one is added): it
        # stays installed, its count and its last fire carry on
        s["republish_at"] = r.randrange(1, n) if s["via"] == "service" and n > 1 and r.random() < 0.35 else None
        # the tracepoint also defines a metric: a second action with the same limits, which has to admit the same hits
        s["companion"] = s["kind"] != "metric" and not s["failing"] and s["window"] not in ("start", "end", "both") \
            and r.random() < 0.4
    else:
        s["threads"] = r.randrange(2, 7)
        # a collecting thread may stall while it holds the action (slow condition, loaded host): 0.2 - 3 s
        s["knobs"]["stall_p"] = r.choice((0.0, 0.0, 0.002, 0.01))
        s["knobs"]["stall_ns"] = [200_000_000, 3_000_000_000]
        s["hits"] = r.choice((1, 1, 2))
        s["mode"] = r.choice(("D", "D", "L"))
        s["target"] = r.random() < 0.4
        if fc in ("0",):
            s["fire_count"] = "1"
        s["via"] = "direct"
    return s


def shrink_candidates(s):
    if s["arm"] == "seq":
        for cand in common.drop_one(s["gaps"]):
            if len(cand) >= 1:
                yield dict(s, gaps=cand)
        if s.get("failing"):
            yield dict(s, failing=False)
        for i, g in enumerate(s["gaps"]):
            if g != ["rel", 10**9]:
                gs = list(s["gaps"])
                gs[i] = ["rel", 10**9]
                yield dict(s, gaps=gs)
    else:
        if s["threads"] > 2:
            yield dict(s, threads=s["threads"] - 1)
        if s["hits"] > 1:
            yield dict(s, hits=1)
        if s["target"]:
            yield dict(s, target=False)


def _args(s):
    args = {}
    if s["fire_count"] is not None:
        args["fire_count"] = s["fire_count"]
    if s["fire_period"] is not None:
        args["fire_period"] = s["fire_period"]
    watches, metrics = [], []
    if s.get("window") == "arg-past":
        args["window_end"] = "1"             # over since 1970, in any unit
    elif s.get("window") == "arg-future":
        args["window_start"] = str(10 ** 30)  # not yet, in any unit
    elif s.get("window") == "arg-negative":
        args["window_start"] = "-1"          # open since before 1970 (or unusable, hence no start): every hit is inside
    if s.get("failing"):
        args["log_msg"] = "hit {i} x={x"
        if s["kind"] == "log":
            args["snapshot"] = "no_collect"
        else:
            watches = ["i + 1"]
    elif s["kind"] == "log":
        args["log_msg"] = "hit {i}"
        args["snapshot"] = "no_collect"
    elif s["kind"] == "metric":
        args["snapshot"] = "no_collect"
        metrics = ["m_hits"]
    elif s["kind"] == "span":
        args["snapshot"] = "no_collect"
        args["span"] = "line"
    if s.get("companion"):
        metrics = ["m_comp"]
    return args, watches, metrics


def execute(scenario, ch):
    if scenario["arm"] == "seq":
        return _execute_seq(scenario, ch)
    return _execute_race(scenario, ch)


def _count_effects(rec, kind):
    want = {"snapshot": "snapshot", "log": "log", "metric": "metric", "span": "span"}[kind]
    return [(seq, th) for (seq, th, k_, tp, payload) in rec.all_effects if k_ == want]


def _execute_seq(s, ch):
    viol = []
    info = {}

    def main(k):
        from deep.api.tracepoint.tracepoint_config import MetricDefinition
        from deep.api.tracepoint.trigger import build_trigger
        from deepproto.proto.tracepoint.v1 import tracepoint_pb2 as tpb
        p = hostgen.start_program("simlim", prelude=False)
        for line in SEQ_SRC.strip("\n").split("\n"):
            p.lines.append(line)
        p.finish()
        tp_line = 2
        w = world.World(k, plugins=[{"name": "RecAll", "kinds": ["logger", "metric", "span"]}], python_plugin=False)
        rec = host.Recorder(k).attach(w)
        rec.install()
        args, watches, metrics = _args(s)
        w.start()
        k.settle()
        period_ns = RefLimiter(1, s["fire_period"] if s["fire_period"] is not None else 1000).period_ns
        win = {"arg-past": (0, 1), "arg-future": (10 ** 30, 0), "arg-negative": (-1, 0)}.get(s.get("window"), (0, 0))
        if s["via"] == "service":
            def the_tp():
                return w.service.make_tp("tp", p.basename, tp_line, args, watches, [
                    tpb.Metric(name=m, type=tpb.MetricType.COUNTER) for m in metrics])
            w.service.set_config([the_tp()], "h1")
            w.deep.poll.poll()
            common.wait_until(k, lambda: len(w.handler._tp_config) > 0, 60)
        else:
            trig = build_trigger("tp", p.basename, tp_line, args, watches, [MetricDefinition(m, "COUNTER") for m in metrics])
            if s.get("window") in ("start", "end", "both"):
                base = k.now_ns + 3 * 10**9
                win = {"start": (base, 0), "end": (0, base + 4 * 10**9), "both": (base, base + 4 * 10**9)}[s["window"]]
                from deep.api.tracepoint.trigger import LocationAction, Trigger, LineLocation, Location
                conf = dict(trig.actions[0].config)
                conf["window_start"], conf["window_end"] = win
                act = LocationAction("tp", None, conf, LocationAction.ActionType.Snapshot)
                trig = Trigger(LineLocation(p.basename, tp_line, Location.Position.START), [act])
            w.handler.new_config([trig])
        hits = []          # (ts, collected?)
        state = {"i": -1, "last_ts": None, "last_collect": None}
        me_name = "app0"

        def on_event(frame, event, arg, seq, tname, ser):
            # the hit: steer the wall clock so that the agent's timestamp (its next clock read) is the wanted one
            if event == "line" and frame.f_lineno == tp_line and frame.f_code.co_filename == p.filename \
                    and tname == me_name:
                i = state["i"]
                kind, val = s["gaps"][i]
                natural = k.now_ns + k.clock_step_ns + k.wall_offset
                if kind == "boundary" and state["last_collect"] is not None:
                    want = state["last_collect"] + period_ns + val
                elif state["last_ts"] is None:
                    want = natural
                else:
                    want = state["last_ts"] + val if kind == "rel" else natural
                    if kind == "boundary":
                        want = natural
                k.wall_offset += want - natural
                if want < natural:
                    k.fault("clock_jump_back")
                elif want > natural + 10**6:
                    k.fault("clock_jump_forward")
                state["last_ts"] = want
                state["pending"] = (seq, want)
        rec.on_event = on_event

        def tick(i):
            state["i"] = i
            if s.get("republish_at") == i and s["via"] == "service":
                k.fault("config_republished_with_tracepoint_unchanged")
                w.service.set_config([the_tp(), w.service.make_tp("other", p.basename, 999, {}, [])], "h2")
                w.deep.poll.poll()
                common.wait_until(k, lambda: sum(len(t_.actions) for t_ in w.handler._tp_config) > len(
                    [1 for _ in (1,)]) and any(t_.id.endswith("#999") for t_ in w.handler._tp_config), 60)
        g = p.load({"tick": tick})
        out = []
        t = shims.SimThread(target=lambda: g["tmain"](1, len(s["gaps"]), out), name=me_name)
        # collected-or-not per hit is read after each hit from the attributed effects
        lim = RefLimiter(s["fire_count"] if s["fire_count"] is not None else 1,
                         s["fire_period"] if s["fire_period"] is not None else 1000, win)
        orig_post = rec._post
        collected = []

        def post(frame, event, arg, result):
            orig_post(frame, event, arg, result)
            if k.me().name != me_name:   # other (pool) threads are traced too and interleave with the hit
                return
            pend = state.pop("pending", None)
            if pend is not None:
                seq, ts = pend
                effs = [e for e in rec.effects.get(seq, []) if e[0] == s["kind"]]
                got = len(effs)
                started = state.pop("started", 0)
                if s.get("failing"):
                    if got:
                        viol.append(V("harness-failing-collection-produced-output", str(effs[:1])))
                    got = started
                elif started and not got:
                    # an action run without its output: forbidden work if the limits forbid it, but not an admitted hit
                    state["work_only"] = True
                if s.get("companion"):
                    n2 = len([e for e in rec.effects.get(seq, []) if e[0] == "metric"])
                    if n2 != got:
                        viol.append(V("second-action-of-the-tracepoint-disagrees", "hit at ts %d: the %s action collected %d "
                                      "time(s), the metric action of the same tracepoint (same limits) %d; republished at %s" % (
                                          ts, s["kind"], got, n2, s.get("republish_at"))))
                if got:
                    state["last_collect"] = ts
                    if s["kind"] == "snapshot" and effs and effs[0][2].ts_nanos != ts:
                        viol.append(V("harness-ts-mismatch", "snapshot ts %d, steered %d" % (effs[0][2].ts_nanos, ts)))
                collected.append((ts, got, state.pop("work_only", False)))
        shims.TRACE_SEAM.post = post
        # a collection that was started is a collection, whether or not it got as far as producing its output: count
        # the action runs themselves (observer at the ActionContext.process seam, restored below)
        from deep.processor.context import action_context as ac_mod
        orig_process = ac_mod.ActionContext.process

        def process(self_):
            if k.me().name == me_name:
                state["started"] = state.get("started", 0) + 1
            return orig_process(self_)
        ac_mod.ActionContext.process = process
        try:
            t.start()
            t.join()
        finally:
            ac_mod.ActionContext.process = orig_process
        common.wait_delivery(k, w, 60)
        # ------------------------------------------------------------- oracle: equality with the reference limiter
        pattern = []
        for hi, (ts, got, work_only) in enumerate(collected):
            if work_only and lim.allows(ts) is False:
                viol.append(V("collected-but-limiter-forbids", "hit %d at ts %d: the action ran (without output) although "
                              "the limits forbid it; count=%r period=%r" % (hi, ts, s["fire_count"], s["fire_period"])))
                break
            if lim.allows(ts) is None:
                # stamped before a recorded collection and a period away from all of them: not decided (see RefLimiter)
                k.probe("undecided_hits")
                if got:
                    lim.record(ts)
                pattern.append((None, got))
                continue
            exp = lim.hit(ts)
            pattern.append((exp, got))
            if got > 1:
                viol.append(V("hit-collected-twice", "hit %d" % hi))
            elif bool(got) != exp:
                viol.append(V("collected-but-limiter-forbids" if got else "allowed-hit-not-collected",
                              "hit %d at ts %d: reference %s, agent %s; settings count=%r period=%r window=%s kind=%s; "
                              "history %s" % (hi, ts, exp, bool(got), s["fire_count"], s["fire_period"], win, s["kind"],
                                              [(t_ - collected[0][0], g_) for t_, g_, _w in collected])))
                break
        if len(collected) != len(s["gaps"]):
            viol.append(V("harness-hit-count", "%d of %d hits observed" % (len(collected), len(s["gaps"]))))
        if rec.raised:
            viol.append(V("trace-call-raised:" + rec.raised[0][5], str(rec.raised[0])))
        info["pattern"] = pattern
        k.log("pattern", pattern)
        k.probe("hits", len(collected))
        k.probe("admitted", sum(1 for e, g_ in pattern if g_))
        k.probe("rejected", sum(1 for e, g_ in pattern if not g_))
        w.deep.shutdown()
        w.close()

    k = common.run_in_kernel(ch, s["knobs"], main)
    pat = info.get("pattern", [])
    key = None
    if any(g for _, g in pat) and any(not g for _, g in pat):
        key = repr((s["fire_count"], s["fire_period"], s["kind"], s.get("window"), s.get("failing"), s.get("republish_at"), s["gaps"], pat))
    return common.result(k, viol, key=key)


def _execute_race(s, ch):
    viol = []
    info = {"concurrent": 0}

    def main(k):
        from deep.api.tracepoint.tracepoint_config import MetricDefinition
        from deep.api.tracepoint.trigger import build_trigger
        p = hostgen.start_program("simrace", prelude=False)
        for line in RACE_SRC.strip("\n").split("\n"):
            p.lines.append(line)
        p.finish()
        mode = s["mode"]
        tp_line = 3 if mode == "D" else 2
        cfg = {"NO_TRACE": True} if mode == "D" else {}
        w = world.World(k, cfg=cfg, plugins=[{"name": "RecAll", "kinds": ["logger", "metric", "span"]}],
                        python_plugin=False)
        args, watches, metrics = _args(s)
        w.start()
        k.settle()
        trig = build_trigger("tp", p.basename, tp_line, args, watches, [MetricDefinition(m, "COUNTER") for m in metrics])
        w.handler.new_config([trig])
        rec = None
        inside = {"n": 0, "max": 0}
        handler = w.handler
        # count how many threads are between the limit check and the record at once (reach probe)
        act = trig.actions[0]
        orig_can = act.can_trigger

        lim0 = RefLimiter(s["fire_count"] if s["fire_count"] is not None else 1,
                          s["fire_period"] if s["fire_period"] is not None else 1000)
        decisions = []

        def can_trigger(ts):
            # the reference limiter is asked with the state the agent has recorded so far (it is advanced in
            # record_triggered below), so its answer does not depend on how the threads interleave
            # judged only when the caller holds the action's lock: a look at the limits without it (a cheap early exit)
            # may be overtaken by another thread's record between our reading of the reference and the agent's answer
            locked = getattr(act.lock, "_owner", None) is k.me()
            want = lim0.allows(ts)
            r_ = orig_can(ts)
            if locked and want is not None and bool(r_) != want:
                decisions.append((ts, bool(r_), want, lim0.count, lim0.last))
            if r_ and not locked and getattr(act.lock, "_owner", "n/a") != "n/a":
                return r_
            if r_:
                inside["n"] += 1
                inside["max"] = max(inside["max"], inside["n"])
                k.probe("passed_limit_check")
                if s["target"]:
                    k.force_switch_to = "*"
            return r_
        orig_rec = act.record_triggered

        def record_triggered(ts):
            inside["n"] -= 1
            lim0.record(ts)
            return orig_rec(ts)
        act.can_trigger = can_trigger
        act.record_triggered = record_triggered
        tracer = None
        if mode == "D":
            src = seams.SRC
            tracer = linetrace.LineTracer(k, (os.path.join(src, "deep/processor"), os.path.join(src, "deep/api/tracepoint")))

            def probe():
                handler.trace_call(sys._getframe(1), "line", None)
            tracer.install()
        else:
            rec = host.Recorder(k).attach(w)
            rec.install()

            def probe():
                return None
        g = p.load({"probe": probe})
        fns = [lambda ti=ti: g["tmain"](ti + 1, s["hits"], []) for ti in range(s["threads"])]
        host.run_threads(k, fns)
        if tracer is not None:
            tracer.uninstall()
        common.wait_delivery(k, w, 60)
        # ------------------------------------------------------------- oracle (safety)
        kind = s["kind"]
        if kind == "snapshot":
            stamps = sorted(es.ts_nanos for (_, _, es) in w.pushed)
            n = len(stamps)
        else:
            cb = {"log": ("log_tracepoint",), "metric": ("counter",), "span": ("create_span",)}[kind]
            n = sum(1 for c_ in w.sink.calls if c_[2] in cb)
            stamps = []
        lim = RefLimiter(s["fire_count"] if s["fire_count"] is not None else 1,
                         s["fire_period"] if s["fire_period"] is not None else 1000)
        total_hits = s["threads"] * s["hits"]
        if lim.fc != -1 and n > lim.fc:
            viol.append(V("collections-exceed-fire-count", "%d collections with fire_count=%r (%d threads x %d hits, "
                          "mode %s, max concurrently inside %d)" % (n, s["fire_count"], s["threads"], s["hits"], mode,
                                                                      inside["max"])))
        for a, b in zip(stamps, stamps[1:]):
            if b - a < lim.period_ns:
                viol.append(V("collections-closer-than-fire-period", "%d ns apart with fire_period=%r (mode %s)" % (
                    b - a, s["fire_period"], mode)))
                break
        for ts_, got_, want_, cnt_, last_ in decisions[:1]:
            viol.append(V("collected-but-limiter-forbids" if got_ else "allowed-hit-not-collected",
                          "hit stamped %d: agent %s, limits %s (fire_count=%r fire_period=%r; %d recorded so far, last "
                          "stamped %r, distance %s ns; mode %s, %d threads)" % (
                              ts_, "collects" if got_ else "refuses", "allow" if want_ else "forbid", s["fire_count"],
                              s["fire_period"], cnt_, last_, None if last_ is None else abs(ts_ - last_), mode, s["threads"])))
        if n == 0 and total_hits > 0 and lim.fc != 0:
            viol.append(V("no-collection-although-allowed", "%d hits, none collected" % total_hits))
        if rec is not None and rec.raised:
            viol.append(V("trace-call-raised:" + rec.raised[0][5], str(rec.raised[0])))
        info["concurrent"] = inside["max"]
        info["n"] = n
        k.log("race", n, inside["max"])
        k.probe("max_threads_inside_action", inside["max"])
        if inside["max"] >= 2:
            k.probe("races_with_two_threads_inside")
        w.deep.shutdown()
        w.close()

    k = common.run_in_kernel(ch, s["knobs"], main)
    key = None
    if info["concurrent"] >= 2:
        key = repr((s["fire_count"], s["fire_period"], s["kind"], s["threads"], s["hits"], s["mode"], info.get("n"),
                    k.order_sig.hexdigest()[:10]))
    return common.result(k, viol, key=key)
