"""C10 - conditions and expressions: gate firing, frame scope, errors contained.

A function is hit n times with generated argument rows; a snapshot tracepoint with a condition and watches sits on
its first line.  The recorder evaluates the same condition and watches on the reference frame (the frame's own module
globals and locals).  Collecting hits must equal a reference limiter in which a rejected hit costs nothing.
"""
import random

from simkit import common, snapcheck
from simkit.common import V
from simkit.refmodel import RefLimiter
from . import hitcommon

ID = "C10"
LEVEL = "exploration"
BUDGET = {"quick": (3000, 35), "thorough": (800_000, 540)}
RULE = ("hit histories of 2-10 hits with generated per-hit locals x conditions (boolean-valued over locals / host "
        "globals / shadowed builtins; failing with NameError, ZeroDivisionError, Exception('true'|'1'|'yes'|'y'|'t'), "
        "a BaseException subclass; names that exist only in the agent's modules; blank) x fire_count in {1,2,-1} x "
        "watches over locals, host globals, builtins, agent-only names, failing expressions; installed by the service "
        "or register_tracepoint; non-trivial = history with both an admitted and a condition-rejected hit, or a "
        "failing expression next to a good one; distinct = distinct (condition, watches, rows, outcome) keys")
COMPONENTS = {"real": ["whole Deep agent"], "stub": ["threads/clock/executor", "gRPC channel + DEEP service"]}
ASSUMPTIONS = ["only boolean-valued and failing conditions are generated (truthiness of other values not demanded)",
               "an error result is the error alternative of the watch result; its text is free"]
TEXT = ("Seeded exploration of hit histories with per-hit truth values against a reference limiter where a rejected "
        "hit is free, plus scope probes comparing every watch with the recorder's evaluation in the frame's own scope.")
NOTE = "Trusts the recorder's evaluation (eval in one namespace: a copy of the frame's locals over its globals)."
TECHNIQUE = "deterministic simulation: hit histories vs reference limiter, scope probes vs reference evaluation"

CONDS_BOOL = ("flag", "not flag", "flag == True", "i % 2 == 0", "i > 2", "val > 1", "name == 'bob'", "G_HOST > 0",
              "G_HOST < 0", "len(name) == 99", "len(name) == 3", "person.age < 3", "data['k'] == 7", "i in G_LIST",
              "True", "False", "  ", "",
              # nested scopes inside the expression see the frame's locals, as they would at that line
              "any(v == i for v in data['l'])", "all(v > val for v in data['l'])", "(lambda: flag)()",
              "len([v for v in data['l'] if v > i]) == 1", "sum(1 for c in name if c == 'b') == 2")
CONDS_FAIL = ("nosuch_name", "1 / 0", "host_raise('true')", "host_raise('1')", "host_raise('yes')", "host_raise('y')",
              "host_raise('t')", "host_raise('True')", "host_raise_base('true')", "host_raise_base('boom')",
              "person.nope", "data['zz'] > 1", "time_ns() > 0", "LocationAction is not None", "deep is not None",
              "uuid is not None", "ConfigService is not None", "flag and nosuch_name", "host_raise('true') if i > 1 else False",
              # x is a local of the function that is not bound yet at the tracepoint line (there is a global x)
              "x == 'GLOBAL-X'", "x is not None")
WATCHES_OK = ("i", "val", "name", "person", "person.name", "person.greet()", "data", "data['l']", "G_HOST", "G_LIST",
              "len(name)", "max(i, 3)", "str(val) + name", "[i, val]", "flag and i",
              "sum(v * i for v in data['l'])", "(lambda: name)()", "sorted(data['l'], key=lambda v: -v * i)",
              "{n_: i for n_ in name[:2]}", "(w_tmp := i + 7) * 2")
WATCHES_BAD = ("nosuch", "1 / 0", "person.nope", "data['zz']", "time_ns", "LocationAction", "deep", "uuid",
               "FrameCollector", "host_raise('x')", "host_raise_base('b')", "TriggerContext", "str2bool",
               # the failure itself cannot be turned into text (KeyError's text is the repr of the key)
               "host_raise_rude()", "G_TAB[G_BADNUM]", "x",
               # bound (:=) by another watch of the same tracepoint, a name of no frame
               "w_tmp")


def generate(seed, tier):
    r = random.Random(seed)
    n = r.randrange(2, 11)
    cond = r.choice(CONDS_BOOL) if r.random() < 0.6 else r.choice(CONDS_FAIL)
    watches = r.sample(WATCHES_OK, r.choice((0, 1, 2, 3)))
    if r.random() < 0.5:
        watches += r.sample(WATCHES_BAD, r.choice((1, 1, 2)))
        r.shuffle(watches)
    # the condition belongs to the tracepoint: it guards every kind of action, not only snapshots
    kind = r.choice(("snapshot", "snapshot", "snapshot", "log", "metric", "span"))
    return {"rows": hitcommon.gen_rows(r, n), "cond": cond, "fire_count": r.choice(("1", "2", "-1", "3")),
            "watches": watches if kind == "snapshot" else [], "via": r.choice(("service", "register")), "kind": kind,
            "knobs": common.draw_knobs(r, stall_p=0.0)}


def shrink_candidates(s):
    for cand in common.drop_one(s["rows"]):
        if cand:
            yield dict(s, rows=cand)
    for cand in common.drop_one(s["watches"]):
        yield dict(s, watches=cand)


def execute(s, ch):
    viol = []

    def install(w, p, k):
        from deepproto.proto.tracepoint.v1 import tracepoint_pb2 as tpb
        from deep.api.tracepoint.tracepoint_config import MetricDefinition
        args = {"fire_count": s["fire_count"], "fire_period": "0", "condition": s["cond"]}
        kind = s.get("kind", "snapshot")
        line = hitcommon.TP_LINE
        if kind != "snapshot":
            args["snapshot"] = "no_collect"
        if kind == "log":
            args["log_msg"] = "hit {i}"
        elif kind == "span":
            args["span"] = "line"
        elif kind == "span-method":
            args.update(span="method", method_name="hit")
            line = -1
        if s["via"] == "service":
            ms = [tpb.Metric(name="m_hit", type=tpb.MetricType.COUNTER)] if kind == "metric" else []
            w.service.set_config([w.service.make_tp("tp", p.basename, line, args, s["watches"], ms)], "h1")
            w.deep.poll.poll()
        else:
            ms = [MetricDefinition("m_hit", "COUNTER")] if kind == "metric" else []
            w.deep.register_tracepoint(p.basename, line, args, s["watches"], ms)

    exprs = list(s["watches"])
    if s["cond"].strip():
        exprs.append(s["cond"])
    kind = s.get("kind", "snapshot")
    eff_kind = {"span-method": "span"}.get(kind, kind)
    k, hits, ctx = hitcommon.run_hits(s, ch, install, exprs, plugins=[{"name": "RecAll", "kinds": ["logger", "metric", "span"]}])
    if ctx.get("raised"):
        viol.append(V("trace-call-raised:%s" % ctx["raised"][0][5], str(ctx["raised"][0])))
    lim = RefLimiter(s["fire_count"], 0)
    pattern = []
    mixed_watch = 0
    for h in hits:
        cap = h.cap
        truth = True
        why = "blank"
        if s["cond"].strip():
            st, val = cap["exprs"][s["cond"]]
            if st == "ok":
                truth = bool(val.obj) if isinstance(val.obj, bool) else None
                why = repr(val.obj)
            else:
                truth = False
                why = "%s(%s)" % (type(val).__name__, val)
        snaps = [e for e in h.effects if e[0] == eff_kind]
        if truth is None:
            continue
        exp = lim.hit(h.index + 1, condition=truth)
        pattern.append((truth, exp, len(snaps)))
        if len(snaps) > 1:
            viol.append(V("hit-collected-twice", "hit %d" % h.index))
        elif bool(snaps) != exp:
            kind = "collected-although-condition-%s" % ("failed" if why[0].isupper() and "(" in why else "false") \
                if snaps and not truth else ("collected-over-budget" if snaps else
                                             "true-hit-not-collected-budget-was-consumed-by-rejected-hit"
                                             if any(not t for t, _, _ in pattern[:-1]) else "true-hit-not-collected")
            viol.append(V(kind, "hit %d: condition %r evaluated to %s; reference %s, agent %s; fire_count %s; history "
                          "(truth, expected, got) %s; agent errors %s" % (h.index, s["cond"], why, exp, bool(snaps),
                                                                          s["fire_count"], pattern, h.errors[:1])))
            break
        if not snaps or kind != "snapshot":
            continue
        # ---- scope: every watch against the reference evaluation in the frame's own scope
        es = snaps[0][2]
        snap = hitcommon.wire_of(ctx, es)
        if snap is None:
            viol.append(V("not-delivered", "hit %d" % h.index))
            continue
        ws = [w_ for w_ in snap.watches if w_.source == 0]
        if [w_.expression for w_ in ws] != list(s["watches"]):
            viol.append(V("watch-list", "configured %s got %s" % (s["watches"], [w_.expression for w_ in ws])))
            continue
        good_roots = []
        n_bad = 0
        for w_ in ws:
            st, val = cap["exprs"][w_.expression]
            has_good = w_.HasField("good_result") and w_.good_result.ID in snap.var_lookup
            if st == "err":
                n_bad += 1
                # "yields an error result": the error alternative of the watch result, not a value that happens to be
                # an exception (which a local holding an exception also gives)
                looks_error = bool(w_.error_result) and not has_good
                if not looks_error:
                    got = snap.var_lookup[w_.good_result.ID] if has_good else None
                    viol.append(V("failing-expression-looks-successful", "%r fails in the frame's scope with %s(%s) but "
                                  "the snapshot reports type=%r value=%r" % (
                                      w_.expression, type(val).__name__, hitcommon.etext(val), got.type if got else None,
                                      got.value[:60] if got else None)))
            else:
                if w_.error_result or not has_good:
                    viol.append(V("good-expression-reported-as-error", "%r evaluates to %r in the frame's scope, "
                                  "snapshot error %r" % (w_.expression, val.text, w_.error_result)))
                else:
                    good_roots.append((w_.good_result, val, "watch[%s]" % w_.expression))
        res = snapcheck.walk(snap, good_roots, cap["graph"], string_limit=1024, collection_limit=10)
        for iss in res.issues:
            if iss.code in ("type-mismatch", "text-mismatch", "container-text-no-len", "phantom-child", "dangling-ref"):
                viol.append(V("watch-" + iss.code, repr(iss)))
        if n_bad and len(ws) > n_bad:
            mixed_watch += 1
        # the frame variables are intact whatever the watches did
        names = sorted(v.name for v in snap.frames[0].variables)
        if names != sorted(cap["locals"].keys()):
            viol.append(V("frame-variables-disturbed", "%s vs %s" % (names, sorted(cap["locals"].keys()))))
    k.log("pattern", pattern)
    k.probe("hits", len(hits))
    k.probe("condition_rejected", sum(1 for t, _, _ in pattern if not t))
    k.probe("admitted", sum(1 for _, _, g in pattern if g))
    k.probe("snapshots_with_failing_and_good_watch", mixed_watch)
    key = None
    if (any(g for _, _, g in pattern) and any(not t for t, _, _ in pattern)) or mixed_watch:
        key = repr((s.get("kind"), s["cond"], s["fire_count"], s["watches"], pattern))
    seen, vs = set(), []
    for v in viol:
        if v["sig"] not in seen:
            seen.add(v["sig"])
            vs.append(v)
    return common.result(k, vs, key=key)
