"""Shared engine of the per-hit checks (C10, C16, C17): one function hit n times with generated argument rows;
tracepoints on its first line; the recorder evaluates every configured expression on the reference frame."""
import random

from simkit import common, hostgen, host, world, shims, kernel

HIT_SRC = '''
G_HOST = 4242
x = 'GLOBAL-X'     # hit() has a local of this name, not yet bound at the tracepoint line: the global is not visible there
G_LIST = [1, 2, 3]
val = -999
name = 'GLOBALNAME'
flag = 'global-flag'
BIG = [[[[i, j, k] for k in range(10)] for j in range(10)] for i in range(10)]

class HostBase(BaseException):
    pass

def len(x):
    return 99

def host_raise(msg):
    raise Exception(msg)

def host_raise_base(msg):
    raise HostBase(msg)

class BadNum:
    """Neither a number nor printable, and saying so rudely."""
    def __float__(self):
        raise HostBase('no float')
    def __str__(self):
        raise HostBase('no str')
    __repr__ = __str__

G_BADNUM = BadNum()
G_TAB = {}

class RudeErr(Exception):
    """An error whose own text cannot be had."""
    def __str__(self):
        raise HostBase('no str for the error either')

def host_raise_rude():
    raise RudeErr()

class Person:
    def __init__(self, name, age):
        self.name = name
        self.age = age
    def greet(self):
        return 'hi ' + self.name
    def __str__(self):
        return 'Person<%s>' % self.name

def hit(i, flag, val, name, person, data, cnt):
    x = i
    # a comprehension whose loop variable is named like a module global: inside the comprehension only - at the
    # tracepoint line (and everywhere else in the function) the name is the global
    _gl = [G_LIST for G_LIST in (0,)]
    return x

def tmain(tid, n, out):
    for i in range(n):
        row = ROWS[i]
        tick(i)
        out.append(hit(i, row[0], row[1], row[2], Person(row[2], i), {'k': row[1], 'l': [i, i + 1]},
                       iter(range(i * 10, i * 10 + 40))))
'''
TP_LINE = None


def build_program():
    global TP_LINE
    p = hostgen.start_program("simhit", prelude=False)
    for line in HIT_SRC.strip("\n").split("\n"):
        p.lines.append(line)
    p.finish()
    TP_LINE = p.source.split("\n").index("    x = i") + 1
    return p


def gen_rows(r, n):
    rows = []
    for i in range(n):
        rows.append([r.random() < 0.5, r.choice((0, 1, 7, -3, 2.5, 1000)), r.choice(("bob", "alice", "true", "Zoë", ""))])
    return rows


def etext(val):
    """Text of the exception a reference evaluation ended with ('' when it has none to give)."""
    if isinstance(val, NameError) and getattr(val, "name", None) == "x":
        # the local that is not bound yet: how the failure is worded (NameError / UnboundLocalError) is not demanded
        return ""
    try:
        return str(val)
    except BaseException:  # noqa
        return ""


class Hit:
    __slots__ = ("index", "seq", "cap", "effects", "uuids", "ts", "errors")


def run_hits(scenario, ch, install, exprs, plugins=(), python_plugin=False, cfg=None, mid=None, threads=1,
             deep_log_level=None):
    """install(w, p, k) installs the tracepoints; exprs: expressions the recorder evaluates at every hit.
    mid: optional callable(w, k, hit_index) run on the app thread before each hit (through tick)."""
    hits = []
    ctx = {}

    def main(k):
        p = build_program()
        w = world.World(k, cfg=cfg, plugins=list(plugins), python_plugin=python_plugin)
        ctx["world"] = w
        if deep_log_level is not None:
            import logging
            logging.getLogger("deep").setLevel(deep_log_level)
        rec = host.Recorder(k).attach(w)
        rec.install()
        ctx["rec"] = rec
        rec.want_lines[(p.basename, TP_LINE)] = True
        rec.exprs_for[(p.basename, TP_LINE)] = list(exprs)
        w.start()
        k.settle()
        install(w, p, k)
        common.wait_until(k, lambda: len(w.handler._tp_config) > 0, 60)

        def tick(i):
            if mid is not None:
                mid(w, k, i)
            k.now_ns += scenario.get("gap_ns", 1_000_000)
        g = p.load({"tick": tick, "ROWS": scenario["rows"]})
        marks = {}
        orig_call = rec.__call__

        def on_event(frame, event, arg, seq, tname, ser):
            if event == "line" and frame.f_lineno == TP_LINE and frame.f_code.co_filename == p.filename:
                marks[tname] = (seq, len(k.uuids))
        rec.on_event = on_event
        orig_post = rec._post

        def post(frame, event, arg, result):
            orig_post(frame, event, arg, result)
            me = k.me().name
            m = marks.pop(me, None)
            if m is None or not (event == "line" and frame.f_lineno == TP_LINE):
                if m is not None:
                    marks[me] = m
                return
            seq, nu = m
            h = Hit()
            h.index = frame.f_locals.get("i")
            h.seq = seq
            h.cap = next((c for c in reversed(rec.captures) if c["seq"] == seq), None)
            h.effects = list(rec.effects.get(seq, []))
            h.uuids = [u for (t_, u) in k.uuids[nu:] if t_ == me]
            h.errors = rec.errors.get(seq, [])
            hits.append(h)
        shims.TRACE_SEAM.post = post
        outs = []
        fns = []
        for ti in range(threads):
            out = []
            outs.append(out)
            fns.append(lambda ti=ti, out=out: g["tmain"](ti + 1, len(scenario["rows"]), out))
        host.run_threads(k, fns)
        common.wait_delivery(k, w, 60)
        ctx["outs"] = outs
        ctx["raised"] = list(rec.raised)
        ctx["logs"] = list(w.logs.records)
        wire = {}
        for (_, _, snap, md) in w.service.snapshots:
            wire[snap.ID.hex()] = snap
        ctx["wire"] = wire
        fin = scenario.get("_finish")
        w.deep.shutdown()
        w.close()

    k = common.run_in_kernel(ch, scenario["knobs"], main)
    return k, hits, ctx


def wire_of(ctx, es):
    return ctx.get("wire", {}).get(format(es.id, "032x"))
