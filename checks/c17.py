"""C17 - metric tracepoints report each defined metric with the right type, labels and value.

1-4 metric definitions per tracepoint (all four types, static and expression labels, numeric / non-numeric / failing /
absent value expressions), 0-3 recording metric processors (one may be attached in mid-run), installed through the
service (real protobuf Metric + converter) or register_tracepoint; expectation computed from the definitions and the
recorder's evaluation of every expression on the reference frame.
"""
import random

from simkit import common, simplugins
from simkit.common import V
from simkit.refmodel import RefLimiter
from . import hitcommon

ID = "C17"
LEVEL = "exploration"
BUDGET = {"quick": (3000, 35), "thorough": (800_000, 540)}
RULE = ("lists of 1-4 metric definitions (COUNTER/GAUGE/HISTOGRAM/SUMMARY; name, namespace/help/unit present or "
        "absent; 0-3 labels static (str/int/bool/float) or expression; value expression numeric, non-numeric, failing "
        "or absent) x 0-3 recording processors, optionally the first one attached after k hits x 2-8 hits x fire_count "
        "in {1,2,-1} x service or register_tracepoint; arm race: two threads hitting two different metric tracepoints at "
        "once under line-level schedules (every processor gets every report); non-trivial = at least one metric call compared; distinct = "
        "distinct (definitions, processors, rows) keys")
COMPONENTS = {"real": ["whole Deep agent", "grpc metric-definition converter"],
              "stub": ["threads/clock/executor", "gRPC channel + DEEP service", "recording MetricProcessors"]}
ASSUMPTIONS = ["the label value for a failing label expression is not demanded",
               "absent help/unit may arrive as '' or None"]
TEXT = ("Seeded exploration over the metric-definition space; call-for-call expectation (method, name, namespace, "
        "help, unit, labels, value) per processor per permitted hit; no budget use while no processor is attached.")
NOTE = "Trusts the recorder's expression evaluation and the recording processors."
TECHNIQUE = "deterministic simulation: definition space vs call-for-call expectation on the reference frame"

TYPES = ("COUNTER", "GAUGE", "HISTOGRAM", "SUMMARY")
VALUE_EXPRS = (None, None, "i", "val", "i * 2.5", "len(name)", "person.age + 1", "flag", "name", "person", "nosuch",
               "1 / 0", "data['k']", "G_HOST", "'12'", "'1e3'", "None", "host_raise('v')", "host_raise_base('v')", "G_BADNUM", "host_raise_rude()")
LABEL_EXPRS = ("name", "i", "person.name", "flag", "data['k']", "nosuch", "G_HOST", "host_raise_base('l')", "G_BADNUM", "host_raise_rude()", "G_TAB[G_BADNUM]")
STATICS = (["s", "blue"], ["i", 7], ["b", True], ["d", 2.5], ["s", ""])


RACE_SRC = '''
def fa(n):
    a = n + 1
    probe()
    return a

def fb(n):
    b = n + 2
    probe()
    return b
'''


def generate(seed, tier):
    r = random.Random(seed)
    if r.random() < 0.2:
        # arm "race": two threads hit two different metric tracepoints at once (first use after start), with a
        # pre-emption point at every line of the configuration service and the handler (mode D)
        return {"arm": "race", "nproc": r.choice((1, 2, 3, 4)), "reps": r.choice((1, 2)),
                "knobs": common.race_knobs(r, stall_p=0.0, p_switch=r.choice((0.05, 0.15, 0.4)))}
    defs = []
    for di in range(r.randrange(1, 5)):
        d = {"name": "m%d_%s" % (di, r.choice(("hits", "lat", "size"))), "type": r.choice(TYPES),
             "expr": r.choice(VALUE_EXPRS), "labels": []}
        if r.random() < 0.5:
            d["namespace"] = r.choice(("app", "ns_x"))
        if r.random() < 0.5:
            d["help"] = "help %d" % di
        if r.random() < 0.5:
            d["unit"] = r.choice(("ms", "bytes"))
        for li in range(r.choice((0, 0, 1, 2, 3))):
            if r.random() < 0.5:
                d["labels"].append({"key": "l%d" % li, "static": r.choice(STATICS)})
            else:
                d["labels"].append({"key": "l%d" % li, "expr": r.choice(LABEL_EXPRS)})
        defs.append(d)
    nproc = r.choice((0, 1, 1, 2, 3))
    n = r.randrange(2, 9)
    return {"rows": hitcommon.gen_rows(r, n), "defs": defs, "nproc": nproc, "vandal": nproc >= 2 and r.random() < 0.3,
            # the processors are empty containers (a registry whose len() is its number of series): falsy objects
            "falsy": nproc >= 1 and r.random() < 0.2, "fire_count": r.choice(("1", "2", "-1")),
            "attach_at": r.randrange(1, n) if r.random() < 0.35 else None, "via": r.choice(("service", "register")),
            "also_snapshot": r.random() < 0.3, "knobs": common.draw_knobs(r, stall_p=0.0)}


def shrink_candidates(s):
    if s.get("arm") == "race":
        if s["reps"] > 1:
            yield dict(s, reps=1)
        if s["nproc"] > 1:
            yield dict(s, nproc=s["nproc"] - 1)
        return
    for cand in common.drop_one(s["defs"]):
        if cand:
            yield dict(s, defs=cand)
    for cand in common.drop_one(s["rows"]):
        if len(cand) > (s["attach_at"] or 0):
            yield dict(s, rows=cand)
    if s["nproc"] > 1:
        yield dict(s, nproc=s["nproc"] - 1)
    for di, d in enumerate(s["defs"]):
        for cand in common.drop_one(d["labels"]):
            yield dict(s, defs=s["defs"][:di] + [dict(d, labels=cand)] + s["defs"][di + 1:])


def _race(s, ch):
    import os
    import sys
    from simkit import hostgen, host, world, shims, kernel, linetrace, seams
    viol = []
    info = {"calls": 0}

    def main(k):
        from deep.api.tracepoint.trigger import build_trigger
        from deep.api.tracepoint.tracepoint_config import MetricDefinition
        p = hostgen.start_program("simmetrace", prelude=False)
        for ln in RACE_SRC.strip("\n").split("\n"):
            p.lines.append(ln)
        p.finish()
        lines = [i + 1 for i, ln in enumerate(p.source.split("\n")) if ln.strip() == "probe()"]
        specs = [{"name": "RaceMetric%d" % i, "kinds": ["metric"]} for i in range(s["nproc"])]
        w = world.World(k, cfg={"NO_TRACE": True}, plugins=specs, python_plugin=False)
        w.start()
        k.settle()
        args = {"fire_count": "-1", "fire_period": "-100000000", "snapshot": "no_collect"}
        w.handler.new_config([
            build_trigger("tpA", p.basename, lines[0], dict(args), [], [MetricDefinition("m_a", "COUNTER", expression="a")]),
            build_trigger("tpB", p.basename, lines[1], dict(args), [], [MetricDefinition("m_b", "GAUGE", expression="b")])])
        handler = w.handler
        src = seams.SRC
        tracer = linetrace.LineTracer(k, (os.path.join(src, "deep/processor"), os.path.join(src, "deep/config/config_service.py")))

        def probe():
            handler.trace_call(sys._getframe(1), "line", None)
        g = p.load({"probe": probe})
        tracer.install()
        host.run_threads(k, [lambda: [g["fa"](i) for i in range(s["reps"])], lambda: [g["fb"](i) for i in range(s["reps"])]])
        tracer.uninstall()
        for i in range(s["nproc"]):
            pname = "RaceMetric%d" % i
            mine = sorted((c[2], c[4][0], c[4][5]) for c in w.sink.calls if c[1] == pname and c[2] in ("counter", "gauge"))
            want = sorted([("counter", "m_a", float(j + 1)) for j in range(s["reps"])] +
                          [("gauge", "m_b", float(j + 2)) for j in range(s["reps"])])
            info["calls"] += len(mine)
            if mine != want:
                viol.append(V("race:processor-missed-report", "processor %d of %d got %s, expected %s (two threads hit two "
                              "metric tracepoints at once)" % (i, s["nproc"], mine, want)))
        w.deep.shutdown()
        w.close()

    k = common.run_in_kernel(ch, s["knobs"], main)
    key = repr((s["nproc"], s["reps"], k.order_sig.hexdigest()[:10])) if info["calls"] else None
    return common.result(k, viol, key=key)


def execute(s, ch):
    if s.get("arm") == "race":
        return _race(s, ch)
    viol = []
    late = {}

    def install(w, p, k):
        from deep.api.tracepoint.tracepoint_config import MetricDefinition, LabelExpression
        from deepproto.proto.tracepoint.v1 import tracepoint_pb2 as tpb
        from deepproto.proto.common.v1.common_pb2 import AnyValue
        args = {"fire_count": s["fire_count"], "fire_period": "0"}
        if not s["also_snapshot"]:
            args["snapshot"] = "no_collect"
        if s["via"] == "service":
            ms = []
            for d in s["defs"]:
                les = []
                for lb in d["labels"]:
                    if "static" in lb:
                        kind, v = lb["static"]
                        av = {"s": AnyValue(string_value=v) if kind == "s" else None, "i": None, "b": None, "d": None}
                        av = (AnyValue(string_value=v) if kind == "s" else AnyValue(int_value=v) if kind == "i"
                              else AnyValue(bool_value=v) if kind == "b" else AnyValue(double_value=v))
                        les.append(tpb.LabelExpression(key=lb["key"], static=av))
                    else:
                        les.append(tpb.LabelExpression(key=lb["key"], expression=lb["expr"]))
                ms.append(tpb.Metric(name=d["name"], type=getattr(tpb.MetricType, d["type"]), labelExpressions=les,
                                     expression=d["expr"], namespace=d.get("namespace"), help=d.get("help"),
                                     unit=d.get("unit")))
            w.service.set_config([w.service.make_tp("tpM", p.basename, hitcommon.TP_LINE, args, [], ms)], "h1")
            w.deep.poll.poll()
        else:
            ms = []
            for d in s["defs"]:
                les = [LabelExpression(lb["key"], lb["static"][1] if "static" in lb else None, lb.get("expr"))
                       for lb in d["labels"]]
                ms.append(MetricDefinition(d["name"], d["type"], les, d["expr"], d.get("namespace"), d.get("help"),
                                           d.get("unit")))
            w.deep.register_tracepoint(p.basename, hitcommon.TP_LINE, args, [], ms)

    nproc = s["nproc"]
    # "vandal": the first processor adjusts the labels it is given (renames keys, adds its own): the others' are theirs
    specs = [{"name": "RecMetric%d" % i, "kinds": ["metric"],
              "label_vandal": bool(s.get("vandal")) and i == 0, "falsy": bool(s.get("falsy"))} for i in range(nproc)]
    boot_specs = specs
    attach_at = s["attach_at"] if nproc >= 1 else None
    if attach_at is not None:
        boot_specs = []

    def mid(w, k, i):
        if attach_at is not None and i == attach_at and not late:
            # attach the processors now: a metric tracepoint that could not report so far must not have spent its budget
            insts = []
            for sp in specs:
                dotted = simplugins.define(sp)
                cls = getattr(simplugins, sp["name"])
                insts.append(cls(config=w.config))
            w.config.plugins = list(w.config.plugins) + insts
            late["at"] = i

    exprs = sorted({d["expr"] for d in s["defs"] if d["expr"]} | {lb["expr"] for d in s["defs"] for lb in d["labels"]
                                                                 if "expr" in lb})
    k, hits, ctx = hitcommon.run_hits(s, ch, install, exprs, plugins=boot_specs, mid=mid)
    if ctx.get("raised"):
        viol.append(V("trace-call-raised:%s" % ctx["raised"][0][5], str(ctx["raised"][0])))
    lim = RefLimiter(s["fire_count"], 0)
    compared = 0
    for h in hits:
        active = nproc if (attach_at is None or h.index >= attach_at) else 0
        calls = [e[2] for e in h.effects if e[0] == "metric"]
        if active == 0:
            if calls:
                viol.append(V("metric-reported-without-processor", "hit %d: %s" % (h.index, calls[:2])))
            continue
        exp = lim.hit(h.index + 1)
        if not exp:
            if calls:
                viol.append(V("metric-reported-over-budget", "hit %d (fire_count %s, attach_at %s): %d calls" % (
                    h.index, s["fire_count"], attach_at, len(calls))))
            continue
        if not calls:
            viol.append(V("permitted-hit-not-reported" + (":after-late-attach" if attach_at is not None else ""),
                          "hit %d reports nothing (fire_count %s, processors attached at hit %s); errors %s" % (
                              h.index, s["fire_count"], attach_at, h.errors[:1])))
            continue
        cap = h.cap
        want = []
        for d in s["defs"]:
            value = 1
            if d["expr"]:
                st, val = cap["exprs"][d["expr"]]
                if st == "ok":
                    try:
                        value = float(val.obj)
                    except BaseException:  # noqa - not a number (or a value whose __float__ raises whatever it likes)
                        value = 1
            labels = {}
            free = set()
            for lb in d["labels"]:
                if "static" in lb:
                    labels[lb["key"]] = lb["static"][1]
                else:
                    st, val = cap["exprs"][lb["expr"]]
                    if st == "ok" and val.text is not None:
                        labels[lb["key"]] = val.text
                    else:
                        free.add(lb["key"])      # failing expression, or a value that cannot be rendered: not demanded
            want.append((d["type"].lower(), d["name"], labels, free, d.get("namespace") or "deep", d.get("help"),
                         d.get("unit"), value))
        for pi in range(nproc):
            pname = "RecMetric%d" % pi
            mine = [c for c in calls if c[0] == pname]
            if len(mine) != len(want):
                viol.append(V("call-count", "processor %s got %d calls for %d definitions at hit %d: %s" % (
                    pname, len(mine), len(want), h.index, [c[1:3] for c in mine])))
                continue
            for c, wnt in zip(mine, want):
                compared += 1
                _, method, name, labels, namespace, help_s, unit, value = c
                wm, wn, wl, free, wns, wh, wu, wv = wnt
                if method != wm:
                    viol.append(V("wrong-operation", "%s defined as %s reported through %s()" % (wn, wm, method)))
                if name != wn:
                    viol.append(V("wrong-name", "%r vs %r" % (name, wn)))
                if namespace != wns:
                    viol.append(V("wrong-namespace", "%r vs %r" % (namespace, wns)))
                if (help_s or None) != (wh or None):
                    viol.append(V("wrong-help", "%r vs %r" % (help_s, wh)))
                if (unit or None) != (wu or None):
                    viol.append(V("wrong-unit", "%r vs %r" % (unit, wu)))
                if not isinstance(value, (int, float)) or isinstance(value, bool) or float(value) != float(wv):
                    viol.append(V("wrong-value", "%s: expression %r -> reported %r, expected %r" % (
                        wn, [d["expr"] for d in s["defs"] if d["name"] == wn], value, wv)))
                got_l = dict(labels or {})
                for key in free:
                    got_l.pop(key, None)
                if set(got_l) != set(wl) or any(str(got_l[k_]) != str(wl[k_]) for k_ in wl):
                    viol.append(V("wrong-labels", "%s: reported %r expected %r (+free %s)" % (wn, labels, wl, sorted(free))))
    k.probe("metric_calls_compared", compared)
    k.probe("late_attach_runs", 1 if late else 0)
    key = repr((s["defs"], s["nproc"], s["attach_at"], s["rows"])) if compared else None
    seen, vs = set(), []
    for v in viol:
        if v["sig"] not in seen:
            seen.add(v["sig"])
            vs.append(v)
    return common.result(k, vs, key=key)
