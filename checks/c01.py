"""C01 - host transparency: the agent never changes what the host program does.

Arm "diff" (live): a generated host program (calls, recursion, loops, try/except, generators, class chains, threads,
awkward values, seeded global random) is run twice in the simulator - agent absent, agent attached with a generated
tracepoint configuration and injected faults - and the host-visible history must be equal; any exception leaving
trace_call is observed directly at the trace seam.
Arm "flood" (live): a loop hits a snapshot tracepoint 70-260 times while the service stalls, fails or is slow on
every send; the host must finish with the same output whatever the collector does (no back-pressure onto the host).
Arm "hostlock" (live): a thread-safe application class whose __repr__ takes the object's lock; two threads meet at
one tracepoint while one of them holds that lock.
Arm "crash" (mode D, fault enumeration): for a corpus of trigger shapes every line of agent code executed below
trace_call is a crash point; an InjectedFault raised there must never leave trace_call.
"""
import os
import random
import sys

from simkit import common, hostgen, host, world, shims, kernel, linetrace, seams, fakegrpc
from simkit.common import V

ID = "C01"
LEVEL = "fault_enumeration"
BUDGET = {"quick": (2600, 40), "thorough": (400_000, 560)}
EXHAUSTIVE = False
RULE = ("arm diff: seeded host programs x seeded tracepoint configurations (well-formed or not: unknown stages, "
        "nameless method tracepoints, failing conditions/watches/log fields/metric expressions, unparsable limits) x "
        "faults (raising dunders on frame values, plugin callbacks raising Exception/BaseException, send errors, "
        "source unavailable) x 1-3 threads x seeded schedules, each run compared with the same program without the "
        "agent; arm flood: 70-260 tracepoint hits in a loop x collector stalled for good / slow / failing x 1-2 "
        "threads, host must terminate with equal output; arm crash: ENUMERATION of every crash point (line of agent code below trace_call whose bytecode can "
        "raise, deep.logging excluded) of %d trigger shapes x event kinds, one injected failure per run "
        "(thorough: all points; quick: a seeded sample); non-trivial = a run in which a tracepoint action or a "
        "fault actually occurred; distinct = distinct scenarios")
ASSUMPTIONS = ["expressions are side-effect free; threads of the host touch only private data",
               "transparency towards closure cells shared with another thread is not demanded (CPython writes "
               "f_locals back after any trace function that reads them)",
               "faults inside the agent's last-resort logging are not injected"]
COMPONENTS = {"real": ["whole Deep agent (diff)", "TriggerHandler + contexts + collector + TaskHandler/PushService (crash)",
                       "CPython trace dispatch"],
              "stub": ["threads/clock/executor", "gRPC channel + DEEP service", "recording/fault-injecting plugins"]}
TEXT = ("Fault enumeration over single crash points of each trigger shape (complete in the thorough tier, sampled in "
        "quick) plus seeded differential exploration agent-off/agent-on with natural faults.  Enumeration is the right "
        "level for 'every point inside the handler at which an error can occur'; programs and configurations can only "
        "be sampled.")
NOTE = ("Crash points are line-granular and single; the shape corpus is finite; InjectedFault is an Exception "
        "subclass standing for any latent failure (a BaseException variant is injected in a second pass).")
TECHNIQUE = "deterministic simulation: differential replay + crash-point enumeration by tracer-raised faults"

CRASH_SRC = '''
class Holder:
    def __init__(self):
        self.v = 1
    def target(self, a):
        probe('call')
        x = a + 1
        probe('line')
        y = [x, {'k': a}]
        probe('line')
        z = len(y)
        probe('line')
        probe('return', z)
        return z
    def failing(self, a):
        probe('call')
        x = a
        probe('line')
        e = ValueError('boom')
        probe('exception', (ValueError, e, None))
        return None

def run(a):
    h = Holder()
    probe('call_into', None)
    return h.target(a)
'''
SHAPES = ("snapshot", "snapshot+watch+log", "log", "metric", "span", "capture-line", "capture-method", "two-tracepoints",
          "span+capture", "nameless-method", "exception-capture", "after-close")
RULE = RULE % len(SHAPES)

KINDS = ("snapshot", "log", "metric", "span", "snaplog", "all")
WATCH_POOL = ("n", "tag", "ctx", "out", "nosuch", "1/0", "len(out)", "ctx['c']", "G_VAL", "tag.upper()", "[n] * 3",
              "__import__('os')", "v0", "v1")
COND_POOL = (None, None, "n >= 0", "n > 100", "nosuch", "1/0", "tag", "True", "ctx")
LOG_POOL = ("plain", "n={n}", "{tag} {nosuch}", "{{braces}} {n}", "{ctx} {out}", "{1/0}")


def _prog(pspec):
    r = random.Random(pspec["seed"] * 7919 + 13)   # not the scenario stream again
    return hostgen.gen_program(r, pspec["name"], nfuncs=pspec["nfuncs"], offenders=pspec["offenders"],
                               use_random=pspec["use_random"])


ENUM_CHUNK = 40
ENUM_CHUNKS = 160      # up to 6400 crash points per shape


def generate(seed, tier):
    r = random.Random(seed)
    idx = seed % 1_000_000
    n_enum = len(SHAPES) * ENUM_CHUNKS * 2
    if tier == "thorough" and idx < n_enum:
        # enumeration block: (exception class, shape, chunk of crash-point numbers); points beyond the shape's count
        # are skipped at run time, so every point of every shape is injected exactly once per exception class
        base, rest = divmod(idx, len(SHAPES) * ENUM_CHUNKS)
        shape, chunk = divmod(rest, ENUM_CHUNKS)
        return {"arm": "crash", "shape": shape, "pick": 0.0, "base": bool(base),
                "ks": list(range(chunk * ENUM_CHUNK + 1, (chunk + 1) * ENUM_CHUNK + 1)),
                "knobs": {"p_switch": 0.0, "cost_ns": 1000, "clock_step_ns": 2000, "stall_p": 0.0}}
    if r.random() < 0.45:
        shape = r.randrange(len(SHAPES))
        return {"arm": "crash", "shape": shape, "pick": r.random(), "base": r.random() < 0.25,
                "knobs": {"p_switch": 0.0, "cost_ns": 1000, "clock_step_ns": 2000, "stall_p": 0.0}}
    if r.random() < 0.06:
        return {"arm": "flood", "hits": r.choice((70, 100, 140, 260)), "threads": r.choice((1, 1, 2)),
                "collector": r.choice(("stalled", "stalled", "slow", "failing")), "kind": r.choice(("snapshot", "snaplog", "capture")),
                "knobs": common.draw_knobs(r, stall_p=0.0)}
    if r.random() < 0.07:
        kind = r.choice(("snapshot", "snaplog", "watch", "cond", "cond", "cond"))
        return {"arm": "hostlock", "kind": kind, "order": r.choice(("b-first", "a-first")), "rounds": r.choice((2, 3, 5)),
                "knobs": common.draw_knobs(r, stall_p=0.0, p_switch=r.choice((0.1, 0.3, 0.5))) if kind == "cond"
                else common.draw_knobs(r, stall_p=0.0)}
    nthreads = r.choice((1, 1, 2, 3))
    pspec = {"seed": seed, "name": "simhost_%d" % (seed % 7), "nfuncs": r.randrange(2, 6),
             "offenders": r.random() < 0.6, "use_random": nthreads == 1 and r.random() < 0.5}
    p = _prog(pspec)
    lines = p.stmt_lines(kinds=("assign", "stmt", "call", "return", "if", "loop", "raise", "yield"))
    funcs = [f for f in p.funcs if f != "tmain"]
    tps = []
    for i in range(r.choice((1, 2, 3, 5, 8))):
        tp = {"id": "tp%d" % i, "kind": r.choice(KINDS), "line": r.choice(lines), "args": {}}
        k = r.random()
        if k < 0.2:
            tp["args"]["method_name"] = r.choice(funcs)
        elif k < 0.3:
            tp["args"]["stage"] = r.choice(("method_start", "method_end", "method_capture"))   # nameless method
        elif k < 0.35:
            tp["args"]["span"] = "method"                                                       # nameless method
        elif k < 0.45:
            tp["args"]["stage"] = r.choice(("line_end", "line_capture", "bogus", ""))
        cond = r.choice(COND_POOL)
        if cond is not None:
            tp["args"]["condition"] = cond
        tp["args"]["fire_count"] = r.choice(("-1", "-1", "3", "1", "", "x"))
        tp["args"]["fire_period"] = r.choice(("0", "0", "-5", "abc", "1000"))
        if r.random() < 0.3:
            tp["args"]["frame_type"] = r.choice(("all_frame", "no_frame", "zzz"))
        tp["watches"] = r.sample(WATCH_POOL, r.choice((0, 1, 2, 3)))
        tp["log"] = r.choice(LOG_POOL)
        tp["metric_expr"] = r.choice((None, "n", "nosuch", "tag", "1/0"))
        tps.append(tp)
    plug_faults = {}
    if r.random() < 0.4:
        # load-time callbacks (order, is_active, constructor) are C20's subject
        for cb in r.sample(("decorate", "log_tracepoint", "create_span", "span_close", "counter", "resource"),
                           r.choice((1, 2))):
            plug_faults[cb] = "all" if r.random() < 0.5 else [r.randrange(3)]
    return {"arm": "diff", "prog": pspec, "tps": tps, "threads": [r.randrange(0, 3) for _ in range(nthreads)],
            "plug_faults": plug_faults, "plug_exc": "Exception",
            "send_errors": r.random() < 0.2, "src_unavailable": r.random() < 0.25,
            "via": r.choice(("service", "register")), "knobs": common.draw_knobs(r, stall_p=r.choice((0, 0, 0.001)))}


def shrink_candidates(s):
    if s["arm"] != "diff":
        return
    for cand in common.drop_one(s["tps"]):
        yield dict(s, tps=cand)
    if len(s["threads"]) > 1:
        for cand in common.drop_one(s["threads"]):
            yield dict(s, threads=cand)
    if s["plug_faults"]:
        yield dict(s, plug_faults={})
    if s["send_errors"]:
        yield dict(s, send_errors=False)
    for i, tp in enumerate(s["tps"]):
        for cand in common.drop_one(tp["watches"]):
            yield dict(s, tps=s["tps"][:i] + [dict(tp, watches=cand)] + s["tps"][i + 1:])
        for key in list(tp["args"]):
            a2 = dict(tp["args"])
            del a2[key]
            yield dict(s, tps=s["tps"][:i] + [dict(tp, args=a2)] + s["tps"][i + 1:])


def execute(s, ch):
    if s["arm"] == "hostlock":
        return _hostlock(s, ch)
    return _diff(s, ch) if s["arm"] == "diff" else _flood(s, ch) if s["arm"] == "flood" else _crash(s, ch)


HOSTLOCK_SRC = '''
class Acct:
    def __init__(self, name):
        self.name = name
        self.lock = Lock()
    def __repr__(self):
        with self.lock:
            return 'Acct(%s)' % self.name

A1 = Acct('one')
A2 = Acct('two')

def audit(acc, out):
    x = acc.name
    out.append(('audited', x))

def ta(out):
    pause()
    audit(A1, out)

def tb(out):
    with A1.lock:
        pause()
        pause()
        audit(A2, out)
'''


HOSTCOND_SRC = '''
class Inv:
    def __init__(self):
        self.lock = RLock()
        self.n = 0
    def size(self):
        with self.lock:
            return self.n
    def add(self, out):
        with self.lock:
            self.n += 1
            audit2(self, out)

INV = Inv()

def audit2(inv, out):
    y = 1
    out.append(('audited', y))

def tc(n, out):
    for i in range(n):
        audit2(INV, out)

def td(n, out):
    for i in range(n):
        INV.add(out)
'''


def _hostcond(s, ch):
    """The tracepoint's condition reads the application's state through the application's own (re-entrant) lock; one
    thread reaches the tracepoint holding that lock, the other without it.  Without the agent nobody waits for two
    locks; a lock of the agent held while the condition is evaluated closes the cycle."""
    viol = []
    info = {"pushed": 0}

    def main(k):
        p = hostgen.start_program("simcond", prelude=False)
        for ln in HOSTCOND_SRC.strip("\n").split("\n"):
            p.lines.append(ln)
        p.finish()
        line = next(i + 1 for i, t in enumerate(p.lines) if t.strip() == "y = 1")
        w = world.World(k, python_plugin=False, plugins=[{"name": "RecLog", "kinds": ["logger"]}])
        rec = host.Recorder(k).attach(w)
        rec.install()
        w.start()
        k.settle()
        args = {"fire_count": "-1", "fire_period": "0", "condition": "inv.size() >= 0", "log_msg": "audit", "snapshot": "no_collect"}
        w.service.set_config([w.service.make_tp("cd", p.basename, line, args, [])], "h1")
        w.deep.poll.poll()
        common.wait_until(k, lambda: len(w.handler._tp_config) > 0, 30)
        g = p.load({"RLock": shims.SimRLock})
        n = s.get("rounds", 3)
        outs = [[], []]
        fns = [lambda: g["tc"](n, outs[0]), lambda: g["td"](n, outs[1])]
        if s["order"] == "a-first":
            fns.reverse()
            outs.reverse()
        k.fault("host_lock_held_at_tracepoint")
        host.run_threads(k, fns)
        info["pushed"] = len([c for c in w.sink.calls if c[2] == "log_tracepoint"])
        for r_ in rec.raised:
            viol.append(V("trace-call-raised:%s@%s" % (r_[5], r_[1]), "exception left trace_call: %s" % (r_,)))
        if [len(o) for o in outs] != [n, n]:
            viol.append(V("host-output-differs", str(outs)))
        w.close()

    k = common.run_in_kernel(ch, s["knobs"], main)
    return common.result(k, viol, key=repr((s["kind"], s["order"], k.order_sig.hexdigest()[:8])) if info["pushed"] else None)


def _hostlock(s, ch):
    if s["kind"] == "cond":
        return _hostcond(s, ch)
    """A thread-safe class of the application (its __repr__ takes the object's own lock); one thread audits an object
    another thread has locked while that thread reaches the same tracepoint.  Without the agent nobody ever waits for
    two locks; with it, a lock of the agent held while application code runs closes the cycle."""
    viol = []
    info = {"pushed": 0}

    def main(k):
        p = hostgen.start_program("simlock", prelude=False)
        for ln in HOSTLOCK_SRC.strip("\n").split("\n"):
            p.lines.append(ln)
        p.finish()
        line = next(i + 1 for i, t in enumerate(p.lines) if "x = acc.name" in t)
        w = world.World(k, python_plugin=False)
        rec = host.Recorder(k).attach(w)
        rec.install()
        w.start()
        k.settle()
        args = {"fire_count": "-1", "fire_period": "0"}
        if s["kind"] == "snaplog":
            args["log_msg"] = "auditing {acc}"
        w.service.set_config([w.service.make_tp("lk", p.basename, line, args, ["acc"] if s["kind"] == "watch" else [])], "h1")
        w.deep.poll.poll()
        common.wait_until(k, lambda: len(w.handler._tp_config) > 0, 30)
        g = p.load({"Lock": shims.SimLock, "pause": lambda: k.sleep(0.001)})
        outs = [[], []]
        fns = [lambda: g["ta"](outs[0]), lambda: g["tb"](outs[1])]
        if s["order"] == "a-first":
            fns.reverse()
            outs.reverse()
        k.fault("host_lock_held_at_tracepoint")
        host.run_threads(k, fns)
        info["pushed"] = len(w.pushed)
        for r_ in rec.raised:
            viol.append(V("trace-call-raised:%s@%s" % (r_[5], r_[1]), "exception left trace_call: %s" % (r_,)))
        if sorted(map(repr, outs)) != sorted(map(repr, [[("audited", "one")], [("audited", "two")]])):
            viol.append(V("host-output-differs", str(outs)))
        w.close()

    k = common.run_in_kernel(ch, s["knobs"], main)
    return common.result(k, viol, key=repr((s["kind"], s["order"], k.order_sig.hexdigest()[:8])) if info["pushed"] else None)


FLOOD_SRC = '''
def step(i, acc):
    acc = acc + i * 3
    return acc

def tmain(tid, n, out):
    acc = tid
    for i in range(n):
        acc = step(i, acc)
    out.append(('acc', acc))
'''


def _flood(s, ch):
    """The collector stalls for good (or is slow, or fails) while a loop keeps hitting a snapshot tracepoint: the
    host finishes with the same output.  A host thread parked behind the agent's delivery is reported by the kernel
    as a hang (blocked until the simulated-hour cap)."""
    viol = []
    info = {"pushed": 0}

    def main(k):
        p = hostgen.start_program("simflood", prelude=False)
        for ln in FLOOD_SRC.strip("\n").split("\n"):
            p.lines.append(ln)
        p.finish()
        line = next(i + 1 for i, t in enumerate(p.lines) if "acc = acc + i * 3" in t)
        w = world.World(k, python_plugin=False)
        if s["collector"] == "stalled":
            w.service.send_faults = lambda idx: {"delay": 10**6}
        elif s["collector"] == "slow":
            w.service.send_faults = lambda idx: {"delay": 7.0}
        else:
            w.service.send_faults = lambda idx: {"kind": "error", "delay": 0.5 if idx % 3 == 0 else 0}
        g = p.load()
        ref = []
        for ti in range(s["threads"]):
            out = []
            g["tmain"](ti + 1, s["hits"], out)
            ref.append(_norm(out))
        rec = host.Recorder(k).attach(w)
        rec.install()
        w.start()
        k.settle()
        args = {"fire_count": "-1", "fire_period": "0"}
        if s["kind"] == "snaplog":
            args["log_msg"] = "acc={acc}"
        if s["kind"] == "capture":
            args["stage"] = "line_capture"
        w.service.set_config([w.service.make_tp("flood", p.basename, line, args, ["i"])], "h1")
        w.deep.poll.poll()
        common.wait_until(k, lambda: len(w.handler._tp_config) > 0, 30)
        g2 = p.load()
        outs = [[] for _ in range(s["threads"])]
        host.run_threads(k, [lambda ti=ti: g2["tmain"](ti + 1, s["hits"], outs[ti]) for ti in range(s["threads"])])
        info["pushed"] = len(w.pushed)
        for r_ in rec.raised:
            viol.append(V("trace-call-raised:%s@%s" % (r_[5], r_[1]), "exception left trace_call: %s" % (r_,)))
        for ti in range(s["threads"]):
            if _norm(outs[ti]) != ref[ti]:
                viol.append(V("host-output-differs", "thread %d with agent %s, without %s (collector %s)" % (
                    ti, outs[ti], ref[ti], s["collector"])))
        k.probe("flood_pushes", len(w.pushed))
        k.probe("sends_in_flight_at_end", len(w.service.send_attempts) - len(w.service.snapshots))
        w.close()

    k = common.run_in_kernel(ch, s["knobs"], main)
    return common.result(k, viol, key=repr((s["hits"], s["threads"], s["collector"], s["kind"])) if info["pushed"] else None)


def _norm(out):
    return [repr(x) for x in out]


def _tp_build(tp):
    args = dict(tp["args"])
    kind = tp["kind"]
    watches, metrics = list(tp["watches"]), []
    if kind in ("log", "snaplog", "all"):
        args["log_msg"] = tp["log"]
    if kind in ("log", "metric", "span"):
        args["snapshot"] = "no_collect"
    if kind in ("metric", "all"):
        metrics = [("m_" + tp["id"], tp["metric_expr"])]
    if kind in ("span", "all") and "span" not in args:
        args["span"] = "line"
    return args, watches, metrics


def _diff(s, ch):
    viol = []
    info = {"acted": 0}

    def main(k):
        from deep.api.tracepoint.tracepoint_config import MetricDefinition
        from deepproto.proto.tracepoint.v1 import tracepoint_pb2 as tpb
        p = _prog(s["prog"])
        if s["src_unavailable"]:
            import linecache
            linecache.cache.pop(p.filename, None)
            k.fault("src_unavailable")
        plug = {"name": "FaultyAll", "kinds": ["logger", "metric", "span", "decorator", "resource"], "order": -1,
                "decorate": {"deco": "x"}, "resource": {"plug": "y"}}
        w = world.World(k, plugins=[plug], python_plugin=True)
        w.sink.faults["FaultyAll"] = {cb: (v if v == "all" else set(v)) for cb, v in s["plug_faults"].items()}
        w.sink.faults_exc["FaultyAll"] = s["plug_exc"]
        if s["send_errors"]:
            w.service.send_faults = lambda idx: {"kind": "error"} if idx % 2 == 0 else None
        # ---------------- reference: the program without the agent (nothing is installed yet)
        g = p.load()
        ref = []
        for ti, n in enumerate(s["threads"]):
            out = []
            if s["prog"]["use_random"]:
                random.seed(1234 + ti)
            g["tmain"](ti + 1, n, out)
            ref.append(_norm(out))
        globals_ref = repr(sorted((k_, type(v_).__name__) for k_, v_ in g.items() if not k_.startswith("__")))
        # ---------------- with the agent attached
        rec = host.Recorder(k).attach(w)
        rec.install()
        try:
            w.start()
        except BaseException as e:  # noqa
            if isinstance(e, kernel.SimKilled):
                raise
            viol.append(V("deep-start-raised:%s" % type(e).__name__, repr(e)))
            return
        k.settle()
        protos = []
        for tp in s["tps"]:
            args, watches, metrics = _tp_build(tp)
            if s["via"] == "service":
                protos.append(w.service.make_tp(tp["id"], p.basename, tp["line"], args, watches, [
                    tpb.Metric(name=m, type=tpb.MetricType.COUNTER, expression=e) for m, e in metrics]))
            else:
                try:
                    w.deep.register_tracepoint(p.basename, tp["line"], args, watches,
                                               [MetricDefinition(m, "COUNTER", expression=e) for m, e in metrics])
                except BaseException as e:  # noqa: register of an uninterpretable tracepoint is C11/C13's subject
                    if isinstance(e, kernel.SimKilled):
                        raise
        if protos:
            w.service.set_config(protos, "h1")
            try:
                w.deep.poll.poll()
            except BaseException as e:  # noqa: an uninterpretable response is C11/C12's subject
                if isinstance(e, kernel.SimKilled):
                    raise
        common.wait_until(k, lambda: len(w.handler._tp_config) > 0, 30)
        g2 = p.load()
        outs = [[] for _ in s["threads"]]
        escaped = []
        trace_state = []

        def body(ti, n):
            if s["prog"]["use_random"]:
                random.seed(1234 + ti)
            try:
                g2["tmain"](ti + 1, n, outs[ti])
            except kernel.SimKilled:
                raise
            except BaseException as e:  # tmain catches everything the program raises itself
                escaped.append((ti, type(e).__name__, str(e)[:200]))
            trace_state.append(sys.gettrace() is not None)
        host.run_threads(k, [lambda ti=ti, n=n: body(ti, n) for ti, n in enumerate(s["threads"])])
        common.wait_delivery(k, w, 30)
        try:
            w.deep.shutdown()
        except BaseException as e:  # noqa: shutdown robustness is C14's subject
            if isinstance(e, kernel.SimKilled):
                raise
        w.close()
        # ---------------- oracle
        for r_ in rec.raised:
            viol.append(V("trace-call-raised:%s@%s" % (r_[5], r_[1]), "exception left trace_call: %s" % (r_,)))
        for e in escaped:
            viol.append(V("exception-reached-host:%s" % e[1], str(e)))
        for ti in range(len(s["threads"])):
            got = _norm(outs[ti])
            if got != ref[ti]:
                # find the first difference
                j = next((i for i, (a, b) in enumerate(zip(got, ref[ti])) if a != b), min(len(got), len(ref[ti])))
                kind = "random-stream" if "'rnd'" in (got[j] if j < len(got) else "") else \
                    "exception" if "'raised'" in (got[j] if j < len(got) else "") else "output"
                viol.append(V("host-%s-differs" % kind, "thread %d entry %d: with agent %s, without %s" % (
                    ti, j, got[j] if j < len(got) else "<end>", ref[ti][j] if j < len(ref[ti]) else "<end>")))
        if not all(trace_state):
            viol.append(V("tracing-switched-off", str(trace_state)))
        if k.dummy_threads:
            # the agent asked threading.current_thread() for a thread that had already taken itself out of the registry
            # of running threads (events of Thread._delete): python then makes up a _DummyThread and keeps it for good -
            # threading.enumerate() / active_count() of the application differ from a run without the agent
            viol.append(V("host-thread-registry-differs", "finished threads %s are back in threading's registry as "
                          "dummy threads" % k.dummy_threads[:4]))
        globals_now = repr(sorted((k_, type(v_).__name__) for k_, v_ in g2.items() if not k_.startswith("__")))
        if globals_now != globals_ref:
            viol.append(V("host-globals-differ", ""))
        info["acted"] = len(w.pushed) + len(w.sink.calls)
        k.probe("agent_effects", info["acted"])
        k.probe("trace_events", len(rec.events))
        w_ = w.sink.fired
        k.probe("plugin_faults_fired", len(w_))

    k = common.run_in_kernel(ch, s["knobs"], main)
    key = repr((s["prog"], s["tps"], s["plug_faults"], s["threads"])) if info["acted"] or k.fault_counts else None
    seen, vs = set(), []
    for v in viol:
        if v["sig"] not in seen:
            seen.add(v["sig"])
            vs.append(v)
    return common.result(k, vs, key=key)


# ----------------------------------------------------------------------------------------------- crash-point arm
def _shape_triggers(shape, basename, lines):
    """Triggers for a shape.  lines: {'l1','l2','l3': probe lines in target; 'f1': probe line in failing}."""
    from deep.api.tracepoint.trigger import LocationAction, LineLocation, FunctionLocation, Trigger, Location
    from deep.api.tracepoint.tracepoint_config import MetricDefinition
    A = LocationAction.ActionType
    base = {"fire_count": "-1", "fire_period": "0"}

    def line(loc, acts):
        return Trigger(LineLocation(basename, lines[loc], Location.Position.START), acts)
    name = SHAPES[shape]
    if name == "snapshot":
        return [line("l1", [LocationAction("t1", None, dict(base, watches=[]), A.Snapshot)])]
    if name == "snapshot+watch+log":
        return [line("l1", [LocationAction("t1", "x > 0", dict(base, watches=["x", "nosuch", "y"], log_msg="x={x} {bad}"),
                                           A.Snapshot)])]
    if name == "log":
        return [line("l1", [LocationAction("t1", None, dict(base, log_msg="x={x}"), A.Log)])]
    if name == "metric":
        return [line("l1", [LocationAction("t1", None, dict(base, metrics=[MetricDefinition("m", "COUNTER", expression="x")]),
                                           A.Metric)])]
    if name == "span":
        return [line("l1", [LocationAction("t1", None, dict(base, span="line"), A.Span)])]
    if name == "capture-line":
        return [line("l1", [LocationAction("t1", None, dict(base, watches=[], stage="line_capture"), A.Snapshot)])]
    if name == "capture-method":
        return [Trigger(FunctionLocation(basename, "target", Location.Position.CAPTURE),
                        [LocationAction("t1", None, dict(base, watches=[], stage="method_capture"), A.Snapshot)])]
    if name == "two-tracepoints":
        return [line("l1", [LocationAction("t1", None, dict(base, watches=["x"]), A.Snapshot),
                            LocationAction("t2", None, dict(base, log_msg="two {x}"), A.Log)]),
                line("l1", [LocationAction("t3", None, dict(base, watches=[]), A.Snapshot)])]
    if name == "span+capture":
        return [Trigger(FunctionLocation(basename, "target", Location.Position.START),
                        [LocationAction("t1", None, dict(base, span="method"), A.Span),
                         LocationAction("t2", None, dict(base, watches=[], stage="method_capture"), A.Snapshot)]),
                line("l2", [LocationAction("t3", None, dict(base, span="line"), A.Span)])]
    if name == "nameless-method":
        return [Trigger(FunctionLocation(basename, None, Location.Position.START),
                        [LocationAction("t1", None, dict(base, watches=[]), A.Snapshot)])]
    if name == "exception-capture":
        return [line("f1", [LocationAction("t1", None, dict(base, watches=[], stage="line_capture"), A.Snapshot)])]
    if name == "after-close":
        return [line("l1", [LocationAction("t1", None, dict(base, watches=[], stage="line_capture"), A.Snapshot)])]
    raise ValueError(name)


def _crash(s, ch):
    viol = []
    info = {"points": 0, "injected": 0, "escaped": 0}

    def main(k):
        p = hostgen.start_program("simcrash", prelude=False)
        for ln in CRASH_SRC.strip("\n").split("\n"):
            p.lines.append(ln)
        p.finish()
        src_lines = p.source.split("\n")
        probe_lines = [i + 1 for i, ln in enumerate(src_lines) if "probe('line')" in ln]
        lines = {"l1": probe_lines[0], "l2": probe_lines[1], "l3": probe_lines[2], "f1": probe_lines[3]}
        shape = s["shape"]
        name = SHAPES[shape]
        src = seams.SRC
        deep_dir = os.path.join(src, "deep") + os.sep
        log_dir = os.path.join(src, "deep", "logging") + os.sep
        th_file = os.path.join(src, "deep", "processor", "trigger_handler.py")

        def crash_filter(frame):
            fn = frame.f_code.co_filename
            if fn.startswith(log_dir):
                return False
            if fn == th_file and frame.f_code.co_name == "trace_call":
                return False      # strictly below the entry point
            return linetrace.line_can_raise(frame.f_code, frame.f_lineno)

        def one_run(crash_at, exc_cls):
            """Deliver the shape's event sequence by hand; returns (crash points seen, escaped exceptions)."""
            seams.reset_process_state()
            w = world.World(k, cfg={"NO_TRACE": True},
                            plugins=[{"name": "RecAll", "kinds": ["logger", "metric", "span", "decorator"]}],
                            python_plugin=True)
            w.start()
            k.settle()
            w.handler.new_config(_shape_triggers(shape, p.basename, lines))
            tracer = linetrace.LineTracer(k, (deep_dir,), crash_at=crash_at, crash_filter=crash_filter,
                                          yield_lines=False, crash_exc=exc_cls)
            escaped = []
            handler = w.handler

            def probe(event, arg=None):
                fr = sys._getframe(1)
                if event == "call_into":
                    return
                tracer.install()
                tracer.armed = True
                try:
                    handler.trace_call(fr, event, arg)
                except kernel.SimKilled:
                    raise
                except BaseException as e:  # noqa - the property: nothing may leave trace_call
                    escaped.append((event, fr.f_lineno, type(e).__name__, str(e)[:120], tracer.crashed_at))
                finally:
                    tracer.armed = False
                    sys.settrace(None)
            g = p.load({"probe": probe})
            h = g["Holder"]()
            if name == "after-close":
                h.target(1)                       # leaves a deferred capture pending ... (line_capture completes at next line)
            try:
                if name == "exception-capture":
                    h.failing(3)
                elif name == "after-close":
                    w.deep.task_handler.flush()
                    h.target(2)
                else:
                    h.target(1)
                    h.target(2)
            except kernel.SimKilled:
                raise
            except BaseException as e:  # the host function itself never raises
                escaped.append(("host", 0, type(e).__name__, str(e)[:120], tracer.crashed_at))
            sys.settrace(None)
            import threading as _rt
            _rt.settrace(None)
            n = tracer.crash_points
            try:
                w.deep.shutdown()
            except BaseException as e:  # noqa
                if isinstance(e, kernel.SimKilled):
                    raise
            w.close()
            return n, escaped, tracer.crashed_at

        exc_cls = linetrace.InjectedFault
        if s.get("base"):
            class InjectedBase(BaseException):
                pass
            exc_cls = InjectedBase
        n, escaped0, _ = one_run(None, exc_cls)
        info["points"] = n
        for e in escaped0:
            viol.append(V("escaped-without-fault:%s:%s" % (name, e[2]), str(e)))
        if n == 0:
            return
        ks = s.get("ks")
        if ks is None:
            # quick: a seeded sample of 6 points of this shape; thorough passes explicit chunks
            r = random.Random(int(s["pick"] * 1e9))
            ks = sorted({r.randrange(1, n + 1) for _ in range(6)})
        for kk in ks:
            if kk > n:
                continue
            n2, escaped, at = one_run(kk, exc_cls)
            info["injected"] += 1
            for e in escaped:
                info["escaped"] += 1
                where = "%s:%s" % (at[0], at[1]) if at else "?"
                viol.append(V("injected-fault-escaped-trace-call:%s" % where,
                              "shape %s, crash point %d/%d at %s, event %s line %d: %s(%s) left trace_call" % (
                                  name, kk, n, at, e[0], e[1], e[2], e[3])))
        k.probe("crash_points_of_shape", n)
        k.probe("faults_injected", info["injected"])
        k.probe("faults_escaped", info["escaped"])

    k = common.run_in_kernel(ch, s["knobs"], main)
    key = repr((s["shape"], s.get("ks"), s["pick"], s.get("base"))) if info["injected"] else None
    seen, vs = set(), []
    for v in viol:
        if v["sig"] not in seen:
            seen.add(v["sig"])
            vs.append(v)
    return common.result(k, vs, key=key, sub=max(info["injected"], 1))
