"""C12 - installed tracepoints converge to the service's latest configuration.

The whole agent is booted (NO_TRACE, so that the simulator's own line tracer can pre-empt between any two lines of
deep/config, deep/task, deep/poll and the handler's new_config) against a scripted service: configuration changes,
no-change answers, RPC errors, slow answers, garbage and partly uninterpretable responses, while the application
registers and unregisters tracepoints and workers stall.  After the last fault the run continues for three poll
intervals of simulated time; a behavioural probe then shows which tracepoints act.
"""
import os
import random
import sys

from simkit import common, hostgen, world, shims, kernel, linetrace, seams
from simkit.common import V

ID = "C12"
LEVEL = "exploration"
BUDGET = {"quick": (4000, 35), "thorough": (600_000, 540)}
RULE = ("scripts of 2-10 operations (service publishes configuration i with a new hash; register / unregister in "
        "code; next poll answers with RPC error / 0.5-12 s delay / garbage bytes / a response with one "
        "uninterpretable tracepoint; sleeps of 0-25 s; shutdown + start of the agent, with a slow poll that comes back with a new configuration still in flight and register/unregister calls while stopped) x an application thread running through the probed lines meanwhile x worker stalls x seeded schedules with a pre-emption point at "
        "every line of the configuration/task/poll code x targeted switches (registration exactly at a poll); then 3 "
        "fault-free poll intervals and a probe; non-trivial = at least two configuration updates or an update plus a "
        "registration were applied; distinct = distinct (script, final outcome, thread order) keys")
COMPONENTS = {"real": ["whole Deep agent: LongPoll, RepeatedTimer, TracepointConfigService, TaskHandler, TriggerHandler, "
                       "generated PollConfig stub + protobuf"],
              "stub": ["threads/clock/executor (2 pool workers, timer on simulated time)", "gRPC channel + scripted DEEP service"]}
ASSUMPTIONS = ["the service issues a fresh hash for every published configuration",
               "liveness is only asserted after faults stop (3 poll intervals of simulated time)"]
TEXT = ("Seeded exploration of response/registration histories, fault sequences and line-level interleavings of the "
        "two update workers against a one-variable reference model (latest good service configuration + live "
        "registrations), judged by a behavioural probe at quiescence, the hash the agent reports and poll liveness.")
NOTE = "Trusts SimExecutor's faithfulness (2 workers, FIFO) and the fake service's protocol (as in tests/it_tests/it_utils.py)."
TECHNIQUE = "deterministic simulation: scripted service + fault injection + line-level schedules vs reference model at quiescence"

N_SVC = 6
N_REG = 3
PROBE_LINES = 12

PROBE_SRC = "def probe_fn():\n" + "".join("    probe(%d)\n" % i for i in range(1, PROBE_LINES + 1)) + "    return 0\n"


def generate(seed, tier):
    r = random.Random(seed)
    if r.random() < 0.15:
        # arm "swap": the step at the end of every update - the handler is handed the new list - against an application
        # thread that is matching events at that very moment, 3-12 times in a row; whatever the matching thread keeps
        # for itself while it works must not outlive the configuration it was taken from
        cfgs = [sorted(r.sample(range(1, N_SVC + 1), r.randrange(0, 4))) for _ in range(r.randrange(3, 13))]
        return {"arm": "swap", "cfgs": cfgs, "pause": r.choice((0.0, 0.0, 0.0001, 0.01)),
                "knobs": common.race_knobs(r, stall_p=0.0, p_switch=r.choice((0.05, 0.15, 0.3)))}
    ops = []
    n = r.randrange(2, 11)
    cfg_i = 0
    regs = 0
    live = []
    for _ in range(n):
        k = r.random()
        if k < 0.3:
            cfg_i += 1
            tps = sorted(r.sample(range(1, N_SVC + 1), r.randrange(0, 4)))
            # bad / odd_metric: one tracepoint the agent cannot interpret (unknown stage / a metric of a type it does not
            # know) - it is skipped, the others of the response are installed
            ops.append({"op": "publish", "cfg": cfg_i, "tps": tps, "bad": r.random() < 0.15,
                        "odd_metric": r.random() < 0.12})
        elif k < 0.45 and regs < N_REG:
            regs += 1
            live.append(regs)
            ops.append({"op": "register", "reg": regs, "at_poll": r.random() < 0.5})
        elif k < 0.55 and live:
            ops.append({"op": "unregister", "reg": live.pop(r.randrange(len(live)))})
        elif k < 0.62:
            # the agent is shut down and started again: while a slow poll that will come back with a new configuration
            # is still in flight, and/or with registrations attempted while it is stopped (those are refused)
            op = {"op": "restart", "inflight": r.random() < 0.6, "delay": r.choice((0.5, 3.0)), "stopped": [],
                  "gap": r.choice((0.0, 2.0, 12.0))}
            if op["inflight"]:
                cfg_i += 1
                op["cfg"] = cfg_i
                op["tps"] = sorted(r.sample(range(1, N_SVC + 1), r.randrange(0, 4)))
            if r.random() < 0.5 and live:
                op["stopped"].append(["unregister", live.pop(r.randrange(len(live)))])
            if r.random() < 0.4:
                # (on a line of its own, or on the line of a registration that is live: refusing the newcomer must not
                # cost the one that is there)
                op["stopped"].append(["register", N_REG + 1, r.choice(live) if live and r.random() < 0.6 else None])
            ops.append(op)
        elif k < 0.75:
            # odd-type: an answer that decodes, of a response type this client does not know (no hash, no tracepoints)
            ops.append({"op": "fault", "kind": r.choice(("error", "error", "delay", "garbage", "odd-type")),
                        "delay": r.choice((0.5, 3.0, 12.0))})
        else:
            ops.append({"op": "sleep", "s": r.choice((0.0, 0.5, 4.0, 9.99, 10.0, 10.01, 25.0))})
    short = r.random() < 0.15
    if short:
        # many short histories beat a few long ones: a race on the LAST update of a history is not healed by a later
        # one.  Two or three operations ending with an update and a registration in flight together
        cfg_i, regs = 1, 1
        ops = [{"op": "publish", "cfg": 1, "tps": sorted(r.sample(range(1, N_SVC + 1), r.randrange(1, 4))), "bad": False,
                "odd_metric": False}]
        if r.random() < 0.4:
            ops.insert(0, {"op": "sleep", "s": r.choice((0.0, 10.0))})
        if r.random() < 0.4:
            ops.append({"op": "sleep", "s": 10.01})
            ops.append({"op": "publish", "cfg": 2, "tps": sorted(r.sample(range(1, N_SVC + 1), r.randrange(0, 3))),
                        "bad": False, "odd_metric": False})
        if r.random() < 0.3:
            ops.append({"op": "restart", "inflight": True, "delay": r.choice((0.5, 3.0)), "cfg": 3, "gap": 0.0,
                        "tps": sorted(r.sample(range(1, N_SVC + 1), r.randrange(0, 3))),
                        "stopped": [["register", N_REG + 1, None]] if r.random() < 0.5 else []})
        else:
            ops.append({"op": "register", "reg": 1, "at_poll": True})
    knobs = common.race_knobs(r, stall_p=r.choice((0.0, 0.0005, 0.003)), stall_ns=[10_000_000, 2_000_000_000])
    return {"ops": ops, "line_level": short or r.random() < 0.7, "prober": r.random() < (0.75 if short else 0.5), "knobs": knobs,
            "tmode": r.randrange(4),
            "svc_clock": r.choice(("steady", "steady", "steady", "zero", "backwards", "jumpy"))}


def shrink_candidates(s):
    if s.get("arm") == "swap":
        for cand in common.drop_one(s["cfgs"]):
            if len(cand) >= 2:
                yield dict(s, cfgs=cand)
        return
    for cand in common.drop_one(s["ops"]):
        regs = [o["reg"] for o in cand if o["op"] == "register"]
        if all(o["reg"] in regs for o in cand if o["op"] == "unregister"):
            yield dict(s, ops=cand)
    for i, o in enumerate(s["ops"]):
        if o["op"] == "sleep" and o["s"] != 0.0:
            ops = list(s["ops"])
            ops[i] = dict(o, s=0.0)
            yield dict(s, ops=ops)
    if s["line_level"]:
        yield dict(s, line_level=False)
    if s.get("prober"):
        yield dict(s, prober=False)
    if s.get("svc_clock", "steady") != "steady":
        yield dict(s, svc_clock="steady")


def _swap(s, ch):
    viol = []
    info = {"final": None}

    def main(k):
        p = hostgen.start_program("simprobe", prelude=False)
        for ln in PROBE_SRC.strip("\n").split("\n"):
            p.lines.append(ln)
        p.finish()
        w = world.World(k, cfg={"NO_TRACE": True}, python_plugin=False)
        w.start()
        handler = w.handler

        def build(lines):
            # fresh objects for every configuration, as a poll response gives
            return [world.line_trigger("svc%d" % i, p.basename, 1 + i, {"fire_count": "-1", "fire_period": "0"}) for i in lines]
        src = seams.SRC
        tracer = linetrace.LineTracer(k, (os.path.join(src, "deep/processor/trigger_handler.py"),
                                          os.path.join(src, "deep/api/tracepoint/trigger.py")))
        tracer.install()
        stop = {"v": False}

        def bg_probe(i):
            handler.trace_call(sys._getframe(1), "line", None)
        gb = p.load({"probe": bg_probe})

        def prober():
            while not stop["v"]:
                gb["probe_fn"]()
                k.yield_point("prober")
        t = shims.SimThread(target=prober, name="prober")
        t.start()
        for lines in s["cfgs"]:
            handler.new_config(build(lines))
            k.fault("configuration_swapped_under_a_matching_thread")
            if s["pause"]:
                k.sleep(s["pause"])
            else:
                k.yield_point("swapper")
        stop["v"] = True
        t.join()
        tracer.uninstall()
        n0 = len(w.pushed)

        def probe(i):
            handler.trace_call(sys._getframe(1), "line", None)
        g = p.load({"probe": probe})
        g["probe_fn"]()
        active = sorted({es.tracepoint.id for (_, _, es) in w.pushed[n0:]})
        expected = ["svc%d" % i for i in s["cfgs"][-1]]
        info["final"] = (active, expected)
        if active != expected:
            viol.append(V("not-converged:stale-older-configuration", "arm swap: the handler was given %s one after the "
                          "other while an application thread was matching events; at rest it acts on %s, the last list is %s" % (
                              s["cfgs"], active, expected)))
        w.deep.shutdown()
        w.close()

    k = common.run_in_kernel(ch, s["knobs"], main)
    return common.result(k, viol, key=repr(("swap", s["cfgs"], k.order_sig.hexdigest()[:8])))


def execute(s, ch):
    if s.get("arm") == "swap":
        return _swap(s, ch)
    viol = []
    info = {"updates": 0, "regs": 0, "final": None}

    def main(k):
        p = hostgen.start_program("simprobe", prelude=False)
        for ln in PROBE_SRC.strip("\n").split("\n"):
            p.lines.append(ln)
        p.finish()
        w = world.World(k, cfg={"NO_TRACE": True}, python_plugin=False)
        svc = w.service
        delivered = []       # (poll index, hash, interpretable tp ids) for every UPDATE answer that reached the agent
        pending_faults = []
        polls_seen = {"n": 0}
        poll_hooks = []

        def tp_proto(i, bad=False):
            args = {"fire_count": "-1", "fire_period": "0"}
            if bad:
                args["stage"] = "no_such_stage"
            return svc.make_tp("svc%d" % i, p.basename, 1 + i, args, [])

        odd = {"expect": None}

        def on_poll(idx, req):
            polls_seen["n"] += 1
            if odd["expect"] is not None:
                # the poll before this one was answered with something the agent cannot understand: it still stands
                # where it stood (hash of the last good configuration), it has not been reset
                want_hash, odd["expect"] = odd["expect"], None
                if req.current_hash != want_hash[1] and req.current_hash == "" and want_hash[1] != "":
                    viol.append(V("unintelligible-answer-reset-the-agent", "after an answer of unknown type the agent "
                                  "reports hash %r; before it reported %r" % (req.current_hash, want_hash[1])))
            for h in list(poll_hooks):
                poll_hooks.remove(h)
                h()
            if pending_faults:
                f = pending_faults.pop(0)
                if f["kind"] == "delay":
                    k.fault("rpc_delay")
                    k.sleep(f["delay"])
                    return None
                if f["kind"] == "odd-type":
                    k.fault("unknown_response_type")
                    odd["expect"] = (idx, req.current_hash)
                    return {"kind": "raw", "bytes": svc.poll_pb2.PollResponse(ts_nanos=k.now_ns, response_type=2).SerializeToString()}
                return {"kind": f["kind"]}
            return None
        svc.on_poll = on_poll
        clock = s.get("svc_clock", "steady")
        if clock != "steady":
            # the service stamps its answers with its own clock (stuck at 0, running backwards, jumping by up to an hour)
            k.fault("service_clock_%s" % clock)
            svc.ts_fn = {"zero": lambda idx, now: 0,
                         "backwards": lambda idx, now: max(1, 10**18 - idx * 10**9),
                         "jumpy": lambda idx, now: max(1, now + ((idx * 2654435761) % 7200 - 3600) * 10**9)}[clock]
        orig_reply = svc._poll_reply

        def poll_reply(req, now):
            data = orig_reply(req, now)
            if req.current_hash != svc.current_hash:
                good = [t.ID for t in svc.current_tps if t.args.get("stage") != "no_such_stage" and t.ID != "svcX"]
                delivered.append((len(svc.polls), svc.current_hash, good))
            return data
        svc._poll_reply = poll_reply
        tracer = None
        in_update = {"n": 0}
        if s["line_level"]:
            src = seams.SRC
            tracer = linetrace.LineTracer(k, (os.path.join(src, "deep/config"), os.path.join(src, "deep/task"),
                                              os.path.join(src, "deep/poll"),
                                              os.path.join(src, "deep/processor/trigger_handler.py"),
                                              os.path.join(src, "deep/api/tracepoint/trigger.py")),
                                          # strategy C: while the handler's configuration is being replaced, hand over
                                          # to the application thread that is running through the probed lines
                                          # ... and the other way round: while the application thread is matching an
                                          # event, or one worker is applying an update, hand over to (another) worker
                                          # (one direction per run: the two would hand the baton straight back)
                                          targets=[{"new_config": ("prober", 0.5)} if s.get("prober") else {},
                                                   # the application thread dawdles in the middle of matching an event
                                                   # while an update is being applied
                                                   {"__actions_for_location": ("@stall", 0.2, (20_000_000, 500_000_000), "any",
                                                                               lambda: in_update["n"] > 0)}
                                                   if s.get("prober") else {},
                                                   # a worker that has just taken an update stands still for 0.05-3 s
                                                   # (at its first line, or at a line drawn as it goes)
                                                   {"update_listeners": ("@stall", 0.35, (50_000_000, 3_000_000_000))},
                                                   {"update_listeners": ("@stall", 0.25, (50_000_000, 3_000_000_000), "any")}][s.get("tmode", 0)])
            tracer.install()
        w.start()
        handles = {}
        live_regs = set()
        shared_lines = set()
        # an application thread that keeps running through the probe lines while the configuration changes under it
        # (its effects are not judged; what it may leave behind in the handler is, by the final probe)
        prober_stop = {"v": False}
        prober_t = None
        if s.get("prober"):
            handler0 = w.handler

            def bg_probe(i):
                handler0.trace_call(sys._getframe(1), "line", None)
            gb = p.load({"probe": bg_probe})

            tcs = w.config.tracepoints
            orig_ul = tcs.update_listeners

            def update_listeners(*a, **kw):
                in_update["n"] += 1
                try:
                    return orig_ul(*a, **kw)
                finally:
                    in_update["n"] -= 1
            tcs.update_listeners = update_listeners

            def prober():
                # hits arrive exactly while a configuration update is being applied on a worker (and now and then
                # in between), so that the handler is matching events at the instant its configuration is replaced
                while not prober_stop["v"]:
                    k.block_until(lambda: (in_update["n"] > 0 and not prober_stop.get("pause")) or prober_stop["v"],
                                  k.now_ns + 370_000_000, why="prober")
                    if prober_stop["v"]:
                        break
                    if prober_stop.get("pause"):
                        # the agent is shut down: nothing to hit (and nothing in a stopped handler ever yields)
                        k.sleep(0.37)
                        continue
                    k.yield_point("prober")
                    gb["probe_fn"]()
                    k.probe("prober_pass_during_update", 1 if in_update["n"] > 0 else 0)
            prober_t = shims.SimThread(target=prober, name="prober")
            prober_t.start()
        for o in s["ops"]:
            if o["op"] == "sleep":
                k.sleep(o["s"])
            elif o["op"] == "publish":
                tps = [tp_proto(i) for i in o["tps"]]
                if o.get("bad"):
                    tps.insert(len(tps) // 2, tp_proto(0, bad=True))
                    k.fault("bad_response")
                if o.get("odd_metric"):
                    from deepproto.proto.tracepoint.v1 import tracepoint_pb2 as tpb
                    bad_tp = svc.make_tp("svcX", p.basename, 1, {"fire_count": "-1", "fire_period": "0"}, [],
                                         [tpb.Metric(name="m_x", type=99)])
                    tps.insert(len(tps) // 2, bad_tp)
                    k.fault("bad_response")
                svc.set_config(tps, "h%d" % o["cfg"])
                k.log("publish", o["cfg"], o["tps"])
            elif o["op"] == "register":
                def do_reg(o=o):
                    try:
                        handles[o["reg"]] = w.deep.register_tracepoint(p.basename, 1 + N_SVC + o["reg"],
                                                                       {"fire_count": "-1", "fire_period": "0"}, [])
                    except kernel.SimKilled:
                        raise
                    except BaseException as e:  # noqa
                        viol.append(V("register-raised:%s" % type(e).__name__, repr(e)))
                        return
                    live_regs.add(o["reg"])
                    info["regs"] += 1
                if o.get("at_poll"):
                    # issue the registration at the instant of the next poll (from the polling thread's point of view
                    # the application thread runs right when the poll request is on the wire)
                    done = {"v": False}

                    def hook(do_reg=do_reg, done=done):
                        k.probe("registration_at_poll")
                        done["v"] = "go"
                    poll_hooks.append(hook)
                    ok = k.block_until(lambda: done["v"] == "go", k.now_ns + 11 * 10**9, why="await-poll")
                    do_reg()
                else:
                    do_reg()
            elif o["op"] == "unregister":
                h = handles.get(o["reg"])
                if h is not None:
                    try:
                        h.unregister()
                    except kernel.SimKilled:
                        raise
                    except BaseException as e:  # noqa
                        viol.append(V("unregister-raised:%s" % type(e).__name__, repr(e)))
                    live_regs.discard(o["reg"])
            elif o["op"] == "fault":
                pending_faults.append(o)
            elif o["op"] == "restart":
                k.fault("restart")
                if o.get("inflight"):
                    # the next poll is slow; the service changes its configuration while that poll is on the wire, and
                    # the agent is shut down before the answer (an UPDATE) arrives
                    pending_faults.insert(0, {"kind": "delay", "delay": o["delay"]})
                    there = {"v": False}
                    poll_hooks.append(lambda there=there: there.__setitem__("v", True))
                    if k.block_until(lambda: there["v"], k.now_ns + 11 * 10**9, why="await-poll"):
                        svc.set_config([tp_proto(i) for i in o["tps"]], "h%d" % o["cfg"])
                        k.fault("update_answered_during_shutdown")
                prober_stop["pause"] = True
                try:
                    w.deep.shutdown()
                except kernel.SimKilled:
                    raise
                except BaseException as e:  # noqa
                    viol.append(V("shutdown-raised:%s" % type(e).__name__, repr(e)))
                k.sleep(o.get("gap", 0.0))
                again = []
                for st in o.get("stopped", ()):
                    what, reg = st[0], st[1]
                    # a stopped agent may refuse these (visibly); what it must not do is half apply them
                    try:
                        if what == "register":
                            on = st[2] if len(st) > 2 and st[2] in live_regs else reg
                            handles[reg] = w.deep.register_tracepoint(p.basename, 1 + N_SVC + on,
                                                                      {"fire_count": "-1", "fire_period": "0"}, [])
                            if on != reg:
                                shared_lines.add(on)     # (accepted: a second registration, never removed, on that line)
                            else:
                                live_regs.add(on)
                        elif handles.get(reg) is not None:
                            handles[reg].unregister()
                            live_regs.discard(reg)
                    except kernel.SimKilled:
                        raise
                    except BaseException as e:  # noqa
                        k.fault("refused_while_stopped")
                        if what == "unregister":
                            again.append(reg)
                w.start()
                prober_stop["pause"] = False
                for reg in again:
                    # the refused unregister is repeated once the agent runs again: now it has to take effect
                    try:
                        handles[reg].unregister()
                    except kernel.SimKilled:
                        raise
                    except BaseException as e:  # noqa
                        viol.append(V("unregister-raised:%s" % type(e).__name__, repr(e)))
                    live_regs.discard(reg)
        # ------------------------------------------------ faults stop: three poll intervals, then quiescence
        prober_stop["v"] = True
        if prober_t is not None:
            prober_t.join()
        pending_faults.clear()
        k.stall_p = 0.0
        polls_before = len(svc.polls)
        k.sleep(35)
        k.settle()
        k.sleep(0.5)
        k.settle()
        if tracer is not None:
            tracer.uninstall()
        polls_after = len(svc.polls)
        # ------------------------------------------------ probe
        handler = w.handler
        n0 = len(w.pushed)

        def probe(i):
            handler.trace_call(sys._getframe(1), "line", None)
        g = p.load({"probe": probe})
        g["probe_fn"]()
        active = sorted({es.tracepoint.id if es.tracepoint.id.startswith("svc") else "reg@%d" % es.tracepoint.line_no
                         for (_, _, es) in w.pushed[n0:]})
        exp_svc = delivered[-1][2] if delivered else []
        expected = sorted(set(exp_svc) | {"reg@%d" % (1 + N_SVC + r_) for r_ in live_regs | shared_lines})
        info["updates"] = len(delivered)
        info["final"] = (active, expected)
        k.log("final", active, expected, [d[1] for d in delivered])
        if active != expected:
            stale = None
            for (_, h_, ids) in delivered[:-1]:
                if sorted(ids) == sorted(a for a in active if a.startswith("svc")):
                    stale = h_
            missing_reg = [e for e in expected if e.startswith("reg@") and e not in active]
            extra_reg = [a for a in active if a.startswith("reg@") and a not in expected]
            kind = "stale-older-configuration" if stale is not None and not missing_reg and not extra_reg else \
                "registration-lost" if missing_reg else "unregistered-still-active" if extra_reg else "wrong-set"
            viol.append(V("not-converged:%s" % kind, "active %s, expected latest service configuration %s + live "
                          "registrations => %s; delivered updates %s; older configuration matching the active set: %s" % (
                              active, exp_svc, expected, [(d[1], d[2]) for d in delivered], stale)))
        # the hash the agent reports is the hash of what it has installed
        if svc.polls:
            last_hash = svc.polls[-1][2]
            if last_hash not in svc.issued and last_hash not in ("", None):
                viol.append(V("reported-hash-never-issued", repr(last_hash)))
            if last_hash == svc.current_hash and delivered and sorted(a for a in active if a.startswith("svc")) != sorted(exp_svc):
                viol.append(V("reports-latest-hash-but-runs-other-configuration", "hash %s reported, service part "
                              "installed %s, configuration of that hash %s" % (
                                  last_hash, [a for a in active if a.startswith("svc")], exp_svc)))
            if last_hash != svc.current_hash:
                viol.append(V("did-not-catch-up-with-service-hash", "reports %r, service has %r after 3 quiet intervals" % (
                    last_hash, svc.current_hash)))
        if polls_after - polls_before < 2:
            viol.append(V("polling-stopped", "%d polls in 35 quiet seconds (timer alive: %s)" % (
                polls_after - polls_before, [t.name for t in k.threads if k.alive(t)])))
        k.probe("updates_delivered", len(delivered))
        k.probe("two_updates_in_flight", 1 if info["regs"] and len(delivered) >= 1 else 0)
        try:
            w.deep.shutdown()
        except BaseException as e:  # noqa (shutdown robustness is C14's subject)
            if isinstance(e, kernel.SimKilled):
                raise
        w.close()

    k = common.run_in_kernel(ch, s["knobs"], main)
    key = None
    if info["updates"] >= 2 or (info["updates"] >= 1 and info["regs"]):
        key = repr((s["ops"], info["final"], k.order_sig.hexdigest()[:8]))
    return common.result(k, viol, key=key)
