"""C15 - deferred work (spans, captures) is completed exactly once, in its own thread.

Program shapes that stress the per-thread pending stack (recursion, super() chains with same-named methods, caught and
propagating exceptions, generators, nesting) run on 1-3 simulated threads (with thread-ident reuse as a scheduler
decision); span and capture tracepoints are installed directly.  The recorder supplies invocation windows; every
generated function embeds its invocation tag in what it returns or raises and the caller logs what it observed, so
captured results are compared with the host's own log, not with a model of CPython's event stream.
"""
import random

from simkit import common, hostgen, host, world, shims, kernel
from simkit.common import V
from simkit.refmodel import RefLimiter

ID = "C15"
LEVEL = "exploration"
BUDGET = {"quick": (3000, 35), "thorough": (800_000, 540)}
RULE = ("program shapes {recursion, super() chain, callee exception caught, exception propagating, exception passing through a finally block (whose clean-up may itself call code that raises and handles another exception), a loop over a python iterator, a handler / a finally that handles an exception of its own before the first one goes on, generator "
        "suspended/closed, nesting, leaf, configuration emptied while the invocation runs, agent shut down by the application in the middle of an invocation and started again before the next thread} x 1-3 span/capture tracepoints (method span, line span, method capture, line "
        "capture; fire_count 1 or unlimited) x 1-3 threads each running 1-4 shapes x thread-ident reuse x seeded "
        "schedules; non-trivial = a run with at least one span opened or one snapshot deferred; distinct = distinct "
        "(tracepoints, thread programs, outcome) keys")
COMPONENTS = {"real": ["whole Deep agent", "CPython trace dispatch"],
              "stub": ["threads/clock/executor (ident reuse decided by the scheduler)", "gRPC channel + DEEP service",
                       "recording span processor"]}
ASSUMPTIONS = ["for generator functions the completing event and the captured value are not demanded",
               "deferred snapshots only exist for directly constructed actions carrying 'stage' (as in the unit tests)"]
TEXT = ("Seeded exploration of program shapes and thread schedules; exactly-once, same-thread, inside the opening "
        "invocation's event window, captured value equal to the outcome the host itself logged for that invocation.")
NOTE = "Trusts the recorder's invocation serials (one per 'call' event) and per-event effect attribution."
TECHNIQUE = "deterministic simulation: invocation-window oracle on recorded event stream, seeded schedules + ident reuse"

SRC = '''
class HostErr(Exception):
    pass

def leaf(tag, out):
    v = 'r' + tag  #L:leaf_body
    return v

def rec(n, tag, out):
    if n > 0:
        inner = rec(n - 1, tag + 'i', out)  #L:rec_call
        out.append(('ret', tag + 'i', inner))
    return 'r' + tag

def hop(n, tag, out):
    if n > 0:
        inner = relay(hop, n - 1, tag + 'h', out)  #L:hop_call
        out.append(('ret', tag + 'h', inner))
    return 'r' + tag

class Base:
    def work(self, tag, out):
        return 'rB' + tag

class Child(Base):
    def work(self, tag, out):
        v = super().work(tag + 's', out)  #L:super_call
        out.append(('ret', tag + 's', v))
        return 'rC' + tag

def thrower(tag, out):
    raise HostErr('e' + tag)

def catcher(tag, out):
    try:
        thrower(tag + 't', out)  #L:catch_call
    except HostErr as e:
        out.append(('exc', tag + 't', str(e)))
    return 'r' + tag

def passer(tag, out):
    x = thrower(tag + 'p', out)  #L:pass_call
    return 'never'

def gen(tag, out):
    yield 'y1' + tag
    yield 'y2' + tag

def usegen(tag, out):
    g = gen(tag + 'g', out)
    a = next(g)  #L:gen_next
    g.close()
    return 'r' + tag

def nest(tag, out):
    a = leaf(tag + 'a', out)  #L:nest_a
    out.append(('ret', tag + 'a', a))
    b = rec(1, tag + 'b', out)  #L:nest_b
    out.append(('ret', tag + 'b', b))
    return 'r' + tag

def swapper(tag, out):
    a = leaf(tag + 'w', out)  #L:swap_a
    swap_config()
    b = 'r' + tag
    return b

def finner(tag, out):
    try:
        thrower(tag + 'f', out)  #L:fin_call
    finally:
        out.append(('fin', tag + '#', None))  #L:fin_line
    return 'never'

class Count:
    def __init__(self, n):
        self.n = n
        self.i = 0
    def __iter__(self):
        return self
    def __next__(self):
        if self.i >= self.n:
            raise StopIteration
        self.i += 1
        return self.i

def looper(tag, out):
    t = 0
    for v in Count(2):  #L:loop_line
        t += v
    return 'r' + tag

def rollback(tag, out):
    try:
        thrower(tag + 'f', out)  #L:rb_call
    except HostErr:
        try:
            raise KeyError('k' + tag)
        except KeyError:
            pass
        raise
    return 'never'

def rollfin(tag, out):
    try:
        thrower(tag + 'f', out)  #L:rf_call
    finally:
        try:
            raise KeyError('k' + tag)
        except KeyError:
            pass
    return 'never'

def dfin(tag, out):
    try:
        thrower(tag + 'x', out)
    except HostErr:
        try:
            raise HostErr('e' + tag + 'f')
        finally:
            z = 1
    return 'never'

def nfin(tag, out):
    try:
        try:
            thrower(tag + 'f', out)
        finally:
            try:
                raise KeyError('a' + tag)
            except KeyError:
                pass
    finally:
        try:
            raise IndexError('b' + tag)
        except IndexError:
            pass
    return 'never'

def quiet(tag, out):
    try:
        raise KeyError('k' + tag)
    except KeyError:
        pass
    return 'q' + tag

def finner2(tag, out):
    try:
        thrower(tag + 'f', out)  #L:fin2_call
    finally:
        quiet(tag + 'c', out)  #L:fin2_line
    return 'never'

def halter(tag, out):
    a = leaf(tag + 'q', out)  #L:halt_a
    halt_agent()
    return 'r' + tag

def drive(shape, tag, out):
    try:
        if shape == 'halt':
            v = halter(tag, out)
        elif shape == 'fin':
            v = finner(tag, out)
        elif shape == 'fin2':
            v = finner2(tag, out)
        elif shape == 'iter':
            v = looper(tag, out)
        elif shape == 'rollback':
            v = rollback(tag, out)
        elif shape == 'rollfin':
            v = rollfin(tag, out)
        elif shape == 'dfin':
            v = dfin(tag, out)
        elif shape == 'nfin':
            v = nfin(tag, out)
        elif shape == 'swap':
            v = swapper(tag, out)
            restore_config()
        elif shape == 'rec':
            v = rec(2, tag, out)
        elif shape == 'hop':
            v = hop(2, tag, out)
        elif shape == 'super':
            v = Child().work(tag, out)
        elif shape == 'catch':
            v = catcher(tag, out)
        elif shape == 'pass':
            v = passer(tag, out)
        elif shape == 'gen':
            v = usegen(tag, out)
        elif shape == 'nest':
            v = nest(tag, out)
        else:
            v = leaf(tag, out)
        out.append(('ret', tag, v))
    except HostErr as e:
        out.append(('exc', tag, str(e)))
        if shape == 'pass':
            out.append(('exc', tag + 'p', str(e)))
        if shape in ('fin', 'fin2', 'rollback', 'rollfin'):
            out.append(('exc', tag + 'f', str(e)))

def tmain(tid, acts, out):
    for j, shape in enumerate(acts):
        drive(shape, 't%d_%d' % (tid, j), out)
'''
SHAPES = ("rec", "super", "catch", "pass", "gen", "nest", "leaf", "swap", "hop", "fin", "fin2", "iter", "rollback", "rollfin", "dfin", "nfin")
FUNCS = ("rec", "work", "catcher", "passer", "thrower", "leaf", "usegen", "gen", "nest", "swapper", "hop", "halter", "finner", "finner2", "quiet", "looper", "rollback", "rollfin", "dfin", "nfin")
LINES = ("rec_call", "super_call", "catch_call", "pass_call", "gen_next", "nest_a", "nest_b", "leaf_body", "swap_a", "hop_call", "halt_a", "fin_call", "fin_line", "fin2_call", "fin2_line", "loop_line", "rb_call", "rf_call")
# recursion that passes through a frame of ANOTHER source file (a decorator, visitor or dispatcher of a library)
RELAY_SRC = "def relay(fn, *args):\n    res = fn(*args)\n    return res\n"
GEN_FUNCS = ("gen",)


_KN = {"p_switch": 0.0, "cost_ns": 1000, "clock_step_ns": 2000, "stall_p": 0.0, "ident_reuse_p": 0.0}
#: minimal scenarios of the defects this check found (three repaired since, the 'catcher' one is a listed finding): run
#: first in every batch, so the listed finding is re-confirmed and the repaired ones are regression-tested
PINNED = (
    {"tps": [{"id": "tp0", "kind": "mcap", "fire_count": "1", "func": "rec"}], "threads": [["rec"]]},
    {"tps": [{"id": "tp0", "kind": "mcap", "fire_count": "1", "func": "work"}], "threads": [["super"]]},
    {"tps": [{"id": "tp0", "kind": "mcap", "fire_count": "-1", "func": "catcher"}], "threads": [["catch"]]},
    {"tps": [{"id": "tp0", "kind": "mcap", "fire_count": "-1", "func": "rollfin"}], "threads": [["rollfin"]]},
    {"tps": [{"id": "tp1", "kind": "lcap", "fire_count": "1", "line": "pass_call"},
             {"id": "tp2", "kind": "mcap", "fire_count": "1", "func": "passer"}], "threads": [["pass"]]},
)


def generate(seed, tier):
    r = random.Random(seed)
    if seed % 1_000_000 < len(PINNED):
        return dict(PINNED[seed % 1_000_000], sequential=False, knobs=dict(_KN))
    tps = []
    for i in range(r.choice((1, 1, 2, 3))):
        kind = r.choice(("mspan", "lspan", "mcap", "mcap", "lcap"))
        tp = {"id": "tp%d" % i, "kind": kind, "fire_count": r.choice(("1", "-1", "-1"))}
        if kind[0] == "m":
            tp["func"] = r.choice(FUNCS)
        else:
            tp["line"] = r.choice(LINES)
        tps.append(tp)
    nthreads = r.choice((1, 1, 2, 3))
    # the configuration swap is process-wide: only used when a single thread runs (other threads' hits would be
    # suppressed while the configuration is empty, which is not what this property is about)
    shapes = SHAPES if nthreads == 1 else tuple(x for x in SHAPES if x != "swap")
    threads = [[r.choice(shapes) for _ in range(r.randrange(1, 5))] for _ in range(nthreads)]
    # "build": the tracepoints are built from their arguments (stage, method_name, span ...) by the agent's own
    # build_trigger, as for tracepoints from the service or registered in code; "direct": locations/actions given directly
    sc = {"tps": tps, "threads": threads, "sequential": r.random() < 0.4, "via": r.choice(("direct", "build")),
          "knobs": common.draw_knobs(r, stall_p=0.0, ident_reuse_p=r.choice((0.0, 0.5, 1.0)))}
    if r.random() < 0.12:
        # the application shuts the agent down in the middle of an invocation that has work pending; the thread ends,
        # the agent is started again and the next thread (which may get the same ident) runs the same code
        sc["bounce"] = True
        sc["sequential"] = True
        tps[0] = {"id": "tp0", "kind": r.choice(("mspan", "mcap")), "fire_count": "-1", "func": "halter"}
        sc["threads"] = [["halt"] + threads[0][1:], ["halt"] + (threads[1] if len(threads) > 1 else [])[:2]] + threads[2:]
        sc["knobs"]["ident_reuse_p"] = r.choice((0.5, 1.0, 1.0))
    return sc


def shrink_candidates(s):
    for cand in common.drop_one(s["tps"]):
        if cand:
            yield dict(s, tps=cand)
    if len(s["threads"]) > 1:
        for cand in common.drop_one(s["threads"]):
            yield dict(s, threads=cand)
    for ti, acts in enumerate(s["threads"]):
        for cand in common.drop_one(acts):
            if cand:
                yield dict(s, threads=s["threads"][:ti] + [cand] + s["threads"][ti + 1:])


def execute(s, ch):
    viol = []
    info = {"opened": 0, "deferred": 0, "outcome": None}

    def main(k):
        from deep.api.tracepoint.trigger import LocationAction, LineLocation, FunctionLocation, Trigger, Location
        p = hostgen.start_program("simdefer", prelude=False)
        for ln in SRC.strip("\n").split("\n"):
            p.lines.append(ln)
        p.finish()
        line_of = {}
        func_of_line = {}
        cur = None
        for i, ln in enumerate(p.source.split("\n")):
            st = ln.strip()
            if st.startswith("def "):
                cur = st[4:st.index("(")]
            if "#L:" in ln:
                line_of[ln.split("#L:")[1].strip()] = i + 1
                func_of_line[i + 1] = cur
        w = world.World(k, plugins=[{"name": "RecSpan", "kinds": ["span"]}], python_plugin=False)
        rec = host.Recorder(k).attach(w)
        rec.install()
        w.start()
        k.settle()
        trig = []
        A = LocationAction.ActionType
        from deep.api.tracepoint.trigger import build_trigger
        for tp in s["tps"]:
            conf = {"fire_count": tp["fire_count"], "fire_period": "-100000000"}
            if s.get("via") == "build":
                args = dict(conf)
                if tp["kind"] in ("mspan", "lspan"):
                    args.update(span="method" if tp["kind"] == "mspan" else "line", snapshot="no_collect")
                else:
                    args.update(stage="method_capture" if tp["kind"] == "mcap" else "line_capture")
                if tp["kind"][0] == "m":
                    args["method_name"] = tp["func"]
                    rec.want_calls[(p.basename, tp["func"])] = True
                    built = build_trigger(tp["id"], p.basename, -1, args, [], [])
                else:
                    rec.want_lines[(p.basename, line_of[tp["line"]])] = True
                    built = build_trigger(tp["id"], p.basename, line_of[tp["line"]], args, [], [])
                trig.append(built)
                continue
            if tp["kind"] == "mspan":
                conf["span"] = "method"
                loc = FunctionLocation(p.basename, tp["func"], Location.Position.START)
                act = LocationAction(tp["id"], None, conf, A.Span)
                rec.want_calls[(p.basename, tp["func"])] = True
            elif tp["kind"] == "lspan":
                conf["span"] = "line"
                loc = LineLocation(p.basename, line_of[tp["line"]], Location.Position.START)
                act = LocationAction(tp["id"], None, conf, A.Span)
                rec.want_lines[(p.basename, line_of[tp["line"]])] = True
            elif tp["kind"] == "mcap":
                conf.update(watches=[], stage="method_capture")
                loc = FunctionLocation(p.basename, tp["func"], Location.Position.CAPTURE)
                act = LocationAction(tp["id"], None, conf, A.Snapshot)
                rec.want_calls[(p.basename, tp["func"])] = True
            else:
                conf.update(watches=[], stage="line_capture")
                loc = LineLocation(p.basename, line_of[tp["line"]], Location.Position.CAPTURE)
                act = LocationAction(tp["id"], None, conf, A.Snapshot)
                rec.want_lines[(p.basename, line_of[tp["line"]])] = True
            trig.append(Trigger(loc, [act]))
        w.handler.new_config(trig)
        rec.depth = 2

        empty_ranges = []

        def swap_config():
            # the last tracepoint is deleted (as the poll thread would do) while an invocation has work pending
            k.fault("config_emptied_mid_invocation")
            w.handler.new_config([])
            empty_ranges.append([len(rec.events), 1 << 60])

        def restore_config():
            w.handler.new_config(trig)
            if empty_ranges:
                empty_ranges[-1][1] = len(rec.events)
        import linecache
        relay_file = "/simlib/relay.py"
        linecache.cache[relay_file] = (len(RELAY_SRC), None, RELAY_SRC.splitlines(True), relay_file)
        relay_g = {"__name__": "simlib.relay"}
        exec(compile(RELAY_SRC, relay_file, "exec"), relay_g)
        down = {"at": None, "thread": None}

        def halt_agent():
            if down["at"] is None:
                k.fault("shutdown_mid_invocation")
                down["at"] = len(rec.events)
                down["thread"] = k.me().name
                w.deep.shutdown()
        g = p.load({"swap_config": swap_config, "restore_config": restore_config, "relay": relay_g["relay"],
                    "halt_agent": halt_agent})
        outs = [[] for _ in s["threads"]]
        fns = [lambda ti=ti, acts=acts: g["tmain"](ti + 1, acts, outs[ti]) for ti, acts in enumerate(s["threads"])]
        if s["sequential"]:
            # one thread after the other: a successor may get the ident of a finished thread (scheduler decision)
            for i, fn in enumerate(fns):
                t = shims.SimThread(target=fn, name="app%d" % i)
                if down["at"] is not None and not w.deep.started:
                    # (the successor exists before the agent's own threads do: it is the one that may get the ident)
                    w.start()
                    w.handler.new_config(trig)
                t.start()
                t.join()
            if down["at"] is not None and not w.deep.started:
                w.start()
        else:
            host.run_threads(k, fns)
        common.wait_delivery(k, w, 30)
        # ------------------------------------------------------------------ oracle
        for r_ in rec.raised:
            viol.append(V("trace-call-raised:%s@%s" % (r_[5], r_[1]), str(r_)))
        outcome = {}
        for out in outs:
            for kind, tag, val in out:
                outcome[tag] = (kind, val)
        ev = rec.events
        last_of_inv = {ser: fl[1] for ser, fl in rec.inv_first_last.items()}
        thread_of_ev = {e[0]: e[1] for e in ev}
        cap_by_seq = {c["seq"]: c for c in rec.captures}
        tpmap = {tp["id"]: tp for tp in s["tps"]}
        # ---- spans
        opens = {}     # sink seq of create_span -> (event seq, thread, tp id, invocation serial, function)
        closes = {}    # sink seq of create_span -> list of (event seq, thread)
        for (seq, th, kind, tp_id, payload) in rec.all_effects:
            if kind == "span":
                cseq = payload[-1]
                e = ev[seq]
                opens[cseq] = (seq, th, tp_id, e[6], e[5])
            elif kind == "span_close":
                name, open_cseq = payload[1]
                closes.setdefault(open_cseq, []).append((seq, th))
        # closes that happened outside any attributed event (e.g. at shutdown) are visible only in the sink
        for sp in w.sink.spans:
            cseq = sp["open_seq"]
            if cseq not in opens:
                continue
            oseq, oth, tp_id, ser, func = opens[cseq]
            tp = tpmap.get(tp_id, {})
            shape = "%s:%s" % (tp.get("kind"), tp.get("func") or tp.get("line"))
            n_close = len(sp["closes"])
            info["opened"] += 1
            if n_close == 0 and down["at"] is not None and oth == down["thread"] and oseq < down["at"]:
                continue    # pending when the application shut the agent down: its completion is not demanded
            if n_close == 0:
                viol.append(V("span-never-closed:%s" % shape, "span %s opened at event %d by %s" % (sp["name"], oseq, oth)))
                continue
            if n_close > 1:
                viol.append(V("span-closed-%d-times:%s" % (n_close, shape), str(sp["closes"])))
            cl = closes.get(cseq, [])
            for (cth, _, _) in sp["closes"]:
                if cth != oth:
                    viol.append(V("span-closed-on-other-thread:%s" % shape, "opened by %s, closed by %s" % (oth, cth)))
            if not cl:
                viol.append(V("span-closed-outside-any-event:%s" % shape, sp["name"]))
                continue
            cseq_ev = cl[0][0]
            if cseq_ev <= oseq:
                viol.append(V("span-closed-not-after-trigger:%s" % shape, "open event %d close event %d" % (oseq, cseq_ev)))
            if func not in GEN_FUNCS and cseq_ev > last_of_inv.get(ser, 1 << 60):
                viol.append(V("span-closed-after-invocation-ended:%s" % shape, "opening invocation (serial %d, %s) "
                              "ended at event %d, span closed at event %d (%s)" % (ser, func, last_of_inv.get(ser), cseq_ev,
                                                                                   ev[cseq_ev][1:6])))
        # ---- deferred snapshots: expected openings from the delivered events and a reference limiter
        wire_by_id = {sn.ID.hex(): sn for (_, _, sn, _) in w.service.snapshots}
        pushes = {}
        for (seq, th, kind, tp_id, payload) in rec.all_effects:
            if kind == "snapshot":
                pushes.setdefault(tp_id, []).append((seq, th, payload))
        for tp in s["tps"]:
            if tp["kind"] not in ("mcap", "lcap"):
                continue
            lim = RefLimiter(tp["fire_count"], -100000000)
            shape = "%s:%s" % (tp["kind"], tp.get("func") or tp.get("line"))
            mine = list(pushes.get(tp["id"], []))
            racy = len(s["threads"]) > 1 and not s["sequential"] and tp["fire_count"] != "-1"
            if racy and lim.fc != -1 and len(mine) > lim.fc:
                viol.append(V("deferred-snapshots-exceed-fire-count:%s" % shape, "%d > %d" % (len(mine), lim.fc)))
            for e in ev:
                seq, th, event, base, line, func, ser = e
                if tp["kind"] == "mcap":
                    m = event == "call" and func == tp["func"] and base == p.basename
                else:
                    m = event == "line" and line == line_of[tp["line"]] and base == p.basename
                if not m or any(a_ <= seq <= b_ for a_, b_ in empty_ranges):
                    continue
                if racy:
                    # several threads race for a limited fire budget: which hit wins is not demanded, so an
                    # opening is recognised by the snapshot that carries this trigger's timestamp
                    tname, idx = rec.ts_index.get(seq, (th, None))
                    rec_t = next((t for t in k.threads if t.name == tname), None)
                    ts0 = rec_t.clock_log[idx] if rec_t is not None and idx is not None and idx < len(rec_t.clock_log) else None
                    if not any(x[2].ts_nanos == ts0 for x in mine):
                        continue
                elif not lim.hit(seq):
                    continue
                info["deferred"] += 1
                # the trigger's timestamp identifies its snapshot
                tname, idx = rec.ts_index.get(seq, (th, None))
                rec_t = next((t for t in k.threads if t.name == tname), None)
                ts = rec_t.clock_log[idx] if rec_t is not None and idx is not None and idx < len(rec_t.clock_log) else None
                got = [x for x in mine if x[2].ts_nanos == ts]
                if not got and down["at"] is not None and th == down["thread"] and seq < down["at"]:
                    continue    # pending when the application shut the agent down: its completion is not demanded
                if len(got) != 1:
                    viol.append(V("deferred-snapshot-sent-%d-times:%s" % (len(got), shape),
                                  "opening event %d (%s %s:%d) in %s" % (seq, event, func, line, th)))
                    continue
                pseq, pth, es = got[0]
                # what the service received for it (the snapshot is converted on a worker while the application goes on)
                wire = wire_by_id.get(format(es.id, "032x"))
                if wire is None:
                    viol.append(V("deferred-snapshot-not-delivered:%s" % shape, "pushed at event %d, never received" % pseq))
                else:
                    caps_w = [w_ for w_ in wire.watches if w_.source == 3]
                    ended = ev[pseq][2] in ("return", "exception")
                    if ended and not caps_w:
                        viol.append(V("captured-result-missing-on-the-wire:%s" % shape, "completed by a %s event, the "
                                      "delivered snapshot carries no capture (in-process object has %d)" % (
                                          ev[pseq][2], len([w_ for w_ in es.watches if w_.source == "CAPTURE"]))))
                    for w_ in caps_w:
                        if not w_.HasField("good_result") or w_.good_result.ID not in wire.var_lookup:
                            viol.append(V("captured-result-dangling-on-the-wire:%s" % shape, "capture %r -> id %r not in the "
                                          "delivered variable table %s" % (w_.expression, w_.good_result.ID, sorted(wire.var_lookup))))
                if pth != th:
                    viol.append(V("deferred-snapshot-sent-on-other-thread:%s" % shape, "%s vs %s" % (th, pth)))
                if pseq <= seq:
                    viol.append(V("deferred-snapshot-sent-not-after-trigger:%s" % shape, "%d <= %d" % (pseq, seq)))
                if func not in GEN_FUNCS and pseq > last_of_inv.get(ser, 1 << 60):
                    viol.append(V("deferred-snapshot-sent-after-invocation-ended:%s" % shape, "invocation ended at %d, "
                                  "sent at %d" % (last_of_inv.get(ser), pseq)))
                # captured value = what the host itself logged for that invocation
                cap = cap_by_seq.get(seq)
                tag = cap["locals"].get("tag") if cap else None
                caps = [w_ for w_ in es.watches if w_.source == "CAPTURE"]
                if func in GEN_FUNCS or tag is None:
                    continue
                real = outcome.get(tag)
                if tp["kind"] == "mcap" and not caps:
                    viol.append(V("capture-without-result:%s" % shape, "invocation %s" % tag))
                    continue
                for w_ in caps:
                    var = es.var_lookup.get(w_.result.vid) if w_.result is not None else None
                    text = var.value if var is not None else None
                    if var is not None and w_.expression == "exception":
                        # the trace argument of an exception event is (type, value, traceback): look inside
                        texts = [text]
                        for c1 in var.children:
                            v1 = es.var_lookup.get(c1.vid)
                            if v1 is not None:
                                texts.append(v1.value)
                                texts += [es.var_lookup[c2.vid].value for c2 in v1.children if c2.vid in es.var_lookup]
                        text = " | ".join(t for t in texts if t)
                    if real is None:
                        continue
                    if tp["kind"] == "lcap":
                        # a line capture completes at the next event of the function; only when that event ends the
                        # invocation does it carry the invocation's outcome
                        if ev[pseq][2] == "return" and pseq == last_of_inv.get(ser) and w_.expression == "exception" \
                                and real[0] == "exc" and real[1] not in (text or ""):
                            viol.append(V("capture-is-not-the-invocations-outcome:%s" % shape, "invocation %s ended with "
                                          "the exception %r (host log); the snapshot, completed by the event that ended "
                                          "it, shows another exception: %r" % (tag, real[1], text)))
                        if ev[pseq][2] == "return" and pseq == last_of_inv.get(ser) and w_.expression == "return" \
                                and real[0] == "exc":
                            viol.append(V("capture-is-not-the-invocations-outcome:%s" % shape, "invocation %s ended with "
                                          "the exception %r (host log) but the snapshot, completed by the event that "
                                          "ended it, says it returned %r" % (tag, real[1], text)))
                        continue
                    if w_.expression == "return":
                        if real[0] != "ret":
                            viol.append(V("capture-is-not-the-invocations-outcome:%s" % shape, "%s: captured %r, "
                                          "host saw %r" % (tag, text, real)))
                        elif text != real[1]:
                            viol.append(V("capture-is-not-the-invocations-outcome:%s" % shape, "invocation %s returned %r (host log) but "
                                          "the snapshot captured %r" % (tag, real[1], text)))
                    elif w_.expression == "exception":
                        if real[0] != "exc":
                            viol.append(V("capture-is-not-the-invocations-outcome:%s" % shape,
                                          "invocation %s returned %r (host log) but the snapshot captured exception %r" % (
                                              tag, real[1], text)))
                        elif real[1] not in (text or ""):
                            viol.append(V("capture-is-not-the-invocations-outcome:%s" % shape, "%s: %r vs %r" % (tag, text, real[1])))
        info["outcome"] = sorted((sp["tp"], len(sp["closes"])) for sp in w.sink.spans)
        k.log("spans", info["outcome"], info["deferred"])
        k.probe("spans_opened", info["opened"])
        k.probe("snapshots_deferred", info["deferred"])
        w.deep.shutdown()
        w.close()

    k = common.run_in_kernel(ch, s["knobs"], main)
    key = repr((s["tps"], s["threads"], info["outcome"])) if info["opened"] or info["deferred"] else None
    seen, vs = set(), []
    for v in viol:
        if v["sig"] not in seen:
            seen.add(v["sig"])
            vs.append(v)
    return common.result(k, vs, key=key)
