"""Shared engine of the snapshot-content checks (C02, C05, C06, C07): value programs, tracepoints with per-run
collection limits, 1-3 hitting threads, a mutator thread, stalls; yields (capture, delivered snapshot) cases."""
import random

from simkit import common, hostgen, host, world, shims, kernel
from simkit.refmodel import RefGraph

LIMIT_KEYS = ("MAX_VARIABLES", "MAX_STRING_LENGTH", "MAX_COLLECTION_SIZE", "MAX_VAR_DEPTH", "MAX_TP_PROCESS_TIME")
DEFAULTS = {"MAX_VARIABLES": 1000, "MAX_STRING_LENGTH": 1024, "MAX_COLLECTION_SIZE": 10, "MAX_VAR_DEPTH": 5,
            "MAX_TP_PROCESS_TIME": 100}


def prog_of(pspec):
    # not the scenario generator's own stream again (its first draws decide the arm: the program would be correlated)
    r = random.Random(pspec["seed"] * 7919 + 13)
    o = pspec["opts"]
    lines, names = hostgen.gen_local_stmts(r, n=o.get("n"), offenders=o.get("offenders", False),
                                           big=o.get("big", False), sharing=o.get("sharing", False),
                                           cycles=o.get("cycles", False), plain=o.get("plain", False))
    if o.get("order") in ("reverse", "shuffle") and o.get("plain"):
        # plain=True: no binding refers to another, so whole binding groups can be re-ordered freely
        groups = list(hostgen.gen_local_stmts.last_groups)
        if o["order"] == "reverse":
            groups.reverse()
        else:
            random.Random(pspec["seed"] + 1).shuffle(groups)
        lines = [ln for g in groups for ln in g]
    extra = list(o.get("extra_lines", ()))
    lines = list(o.get("pre_lines", ())) + lines
    p = hostgen.gen_value_program(r, pspec["name"], lines, extra_inner=extra, post_inner=list(o.get("post_lines", ())))
    p.local_names = names
    return p


class VarView:
    __slots__ = ("type", "value", "hash", "children", "truncated")


class IdView:
    __slots__ = ("ID", "name", "modifiers", "original_name")


class FrameView:
    __slots__ = ("file_name", "short_path", "method_name", "line_number", "class_name", "app_frame", "variables")


class WatchView:
    __slots__ = ("expression", "good_result", "error_result", "source", "_has")

    def HasField(self, name):
        return self._has if name == "good_result" else False


class TpView:
    pass


class SnapView:
    """Adapter that gives an in-process EventSnapshot the shape of the protobuf Snapshot (for snapshots whose
    direct configuration carries integer limits, which the wire format cannot carry)."""

    def __init__(self, es):
        def vid(v):
            i = IdView()
            i.ID = v.vid
            i.name = v.name
            i.modifiers = list(v.modifiers or [])
            i.original_name = v.original_name or ""
            return i
        self.var_lookup = {}
        for k, v in es.var_lookup.items():
            vv = VarView()
            vv.type, vv.value, vv.hash, vv.truncated = v.type, v.value, v.hash, v.truncated
            vv.children = [vid(c) for c in v.children]
            self.var_lookup[k] = vv
        self.frames = []
        for f in es.frames:
            fv = FrameView()
            fv.file_name, fv.short_path, fv.method_name = f.file_name, f.short_path, f.method_name
            fv.line_number, fv.class_name, fv.app_frame = f.line_number, f.class_name or "", f.app_frame
            fv.variables = [vid(c) for c in f.variables]
            self.frames.append(fv)
        self.watches = []
        for w in es.watches:
            wv = WatchView()
            wv.expression, wv.source = w.expression, w.source
            wv.error_result = w.error or ""
            wv._has = w.result is not None
            wv.good_result = vid(w.result) if w.result is not None else None
            self.watches.append(wv)
        self.ts_nanos = es.ts_nanos
        self.duration_nanos = es.duration_nanos
        self.log_msg = es.log_msg or ""
        tp = TpView()
        tp.ID, tp.path, tp.line_number = es.tracepoint.id, es.tracepoint.path, es.tracepoint.line_no
        tp.args, tp.watches = dict(es.tracepoint.args), list(es.tracepoint.watches)
        self.tracepoint = tp
        self.attributes = {k: v for k, v in es.attributes.items()}
        self.ID = es.id.to_bytes(16, "big")
        self.from_wire = False


def run_cases(scenario, ch, use_python_plugin=True, want_calls=False):
    """Execute the scenario.  Returns (kernel, cases, ctx); each case = dict(capture, tp, es, wire, view, post_ns)."""
    cases = []
    ctx = {}

    def main(k):
        from deep.api.tracepoint.trigger import build_trigger, LocationAction, LineLocation, Trigger, Location
        p = prog_of(scenario["prog"])
        ctx["prog"] = p
        cfg = dict(scenario.get("cfg") or {})
        w = world.World(k, cfg=cfg, python_plugin=use_python_plugin, plugins=scenario.get("plugins", ()))
        ctx["world"] = w
        if scenario.get("send_faults") is not None:
            w.service.send_faults = scenario["send_faults"]
        rec = host.Recorder(k, depth=scenario.get("ref_depth", 7)).attach(w)
        rec.install()
        rec.all_frames = bool(scenario.get("all_frames"))
        ctx["rec"] = rec
        lines = {"mark": p.mark_line, "after": p.after_line, "midcall": p.mid_call_line}
        svc_tps, trig = [], []
        for tp in scenario["tps"]:
            line = lines[tp.get("line", "mark")]
            tp["_line"] = line
            rec.want_lines[(p.basename, line)] = True
            rec.exprs_for.setdefault((p.basename, line), [])
            for wexpr in tp.get("watches", []):
                if wexpr not in rec.exprs_for[(p.basename, line)]:
                    rec.exprs_for[(p.basename, line)].append(wexpr)
            args = {"fire_count": "-1", "fire_period": "-100000000"}
            args.update(tp.get("args", {}))
            if tp.get("via", "direct") == "service":
                svc_tps.append(w.service.make_tp(tp["id"], p.basename, line, args, tp.get("watches", [])))
            else:
                conf = {"watches": list(tp.get("watches", [])), "fire_count": "-1", "fire_period": "-100000000"}
                conf.update(tp.get("args", {}))
                conf.update(tp.get("limits", {}))
                act = LocationAction(tp["id"], None, conf, LocationAction.ActionType.Snapshot)
                trig.append(Trigger(LineLocation(p.basename, line, Location.Position.START), [act]))
        w.start()
        k.settle()
        if svc_tps:
            w.service.set_config(svc_tps, "h1")
            w.deep.poll.poll()
            common.wait_until(k, lambda: len(w.handler._tp_config) > 0, 120)
        if trig:
            w.handler.new_config(list(w.handler._tp_config) + trig)
        g = p.load()
        ctx["globals"] = g
        outs = []
        fns = []
        for ti, n in enumerate(scenario["threads"]):
            out = []
            outs.append(out)
            fns.append(lambda ti=ti, n=n, out=out: g["tmain"](ti + 1, n, out))
        ctx["outs"] = outs
        host.run_threads(k, fns, names=scenario.get("thread_names"))
        common.wait_delivery(k, w, 5.0 if any(t.get("limits") for t in scenario["tps"]) else 300.0)   # stalled delivery workers are blocked with a deadline: let simulated time pass
        ctx["end_ns"] = k.now_ns
        # ---------------------------------------------------------------- pair captures with delivered snapshots
        wire = {}
        for (_, _, snap, md) in w.service.snapshots:
            wire.setdefault(snap.ID.hex(), []).append(snap)
        ctx["wire"] = wire
        tpmap = {tp["id"]: tp for tp in scenario["tps"]}
        for cap in rec.captures:
            effs = [e for e in rec.effects.get(cap["seq"], []) if e[0] == "snapshot"]
            errs = rec.errors.get(cap["seq"], [])
            for tp in scenario["tps"]:
                if tp["_line"] != cap["line"]:
                    continue
                mine = [e for e in effs if e[1] == tp["id"]]
                case = {"cap": cap, "tp": tp, "es": None, "wire": None, "view": None, "errors": errs, "n_pushed": len(mine)}
                if mine:
                    es = mine[0][2]
                    case["es"] = es
                    ws = wire.get(format(es.id, "032x"), [])
                    case["wire_count"] = len(ws)
                    if ws:
                        case["wire"] = ws[0]
                        case["view"] = ws[0]
                    else:
                        try:
                            case["view"] = SnapView(es)
                        except BaseException as e:  # noqa
                            case["view_error"] = repr(e)
                cases.append(case)
        ctx["raised"] = list(rec.raised)
        ctx["logs"] = list(w.logs.records)
        w.deep.shutdown()
        w.close()

    k = common.run_in_kernel(ch, scenario["knobs"], main)
    return k, cases, ctx


def effective_limits(tp):
    lim = dict(DEFAULTS)
    lim.update(tp.get("limits", {}))
    return lim


# ------------------------------------------------------------------------------------------------ shared oracles
def dedup(viol):
    seen, vs = set(), []
    for v in viol:
        if v["sig"] not in seen:
            seen.add(v["sig"])
            vs.append(v)
    return vs


def watch_roots(view, cap, graph):
    """(roots, issues) for the user watches of the snapshot against the reference evaluation at capture time."""
    from simkit.snapcheck import Issue
    roots, issues = [], []
    for wi, w_ in enumerate(view.watches):
        if str(w_.source) not in ("0", "WATCH"):
            continue
        ref = cap["exprs"].get(w_.expression)
        if ref is None:
            continue
        if ref[0] == "ok":
            if w_.HasField("good_result") and w_.good_result.ID:
                roots.append((w_.good_result, ref[1], "watch[%s]" % w_.expression))
            elif w_.HasField("good_result"):
                issues.append(Issue("watch-result-without-id", "watch[%s]" % w_.expression))
            else:
                issues.append(Issue("watch-no-result", "watch[%s]" % w_.expression, "error %r" % w_.error_result))
        elif w_.HasField("good_result") and not w_.error_result:
            # evaluated on its own against the paused frame the expression fails (e.g. a name that exists nowhere in
            # the frame): a value can only come from somewhere else
            issues.append(Issue("watch-result-for-failing-expression", "watch[%s]" % w_.expression,
                                "fails with %s" % type(ref[1]).__name__))
    return roots, issues


def ref_levels(graph, roots, max_depth, collection_cap):
    """Distinct reference nodes by breadth-first level (frame variables = level 1), list-likes capped."""
    seen = {}
    level = []
    for n in roots:
        if n.serial not in seen:
            seen[n.serial] = 1
            level.append(n)
    levels = [level]
    d = 1
    while level and d < max_depth:
        nxt = []
        for n in level:
            kids = graph.expand(n)
            if n.kind in ("seq", "set") and collection_cap is not None:
                kids = kids[:collection_cap]
            elif n.kind == "exc" and collection_cap is not None:
                # an exception's args are a tuple: the per-collection cap legitimately applies to them
                args = [k_ for k_ in kids if k_[1] is None][:collection_cap]
                kids = args + [k_ for k_ in kids if k_[1] is not None]
            for names, orig, c in kids:
                if c.serial not in seen:
                    seen[c.serial] = d + 1
                    nxt.append(c)
        levels.append(nxt)
        level = nxt
        d += 1
    return levels, seen
