"""C08 - wire fidelity: the service receives every snapshot field intact, with auth.

Every snapshot the collector produces (value programs incl. awkward values, lone surrogates, empty and large tables,
failing watches, log messages, plugin decorations of every attribute type) is compared, as handed to PushService, with
the bytes the simulated channel receives from the REAL stub and serialiser, parsed back; the expectation is built
independently from the .proto field list.  Every poll and send must carry the configured auth provider's metadata,
also across send errors; a failed send must not disturb the next one.
"""
import base64
import random

from simkit import common, hostgen, simauth
from simkit.common import V
from simkit.refmodel import esc
from . import snapcommon

ID = "C08"
LEVEL = "exploration"
BUDGET = {"quick": (2000, 35), "thorough": (500_000, 540)}
RULE = ("collector-produced snapshots of seeded value programs (friendly and awkward values, lone surrogates, shared/"
        "cyclic data, 0-8 locals, big structures) x watches (good and failing) x log messages x decorator and resource "
        "plugins supplying attributes of every valid type (str, bool, int, float, sequences) x auth configuration in "
        "{none, BasicAuthProvider with ASCII / non-ASCII credentials, custom provider, rotating provider, provider "
        "failing on its first call, provider slow on its first call} x send "
        "errors on a subset of sends x 1-2 threads; every delivered snapshot is compared field by field; "
        "non-trivial = at least one snapshot compared; distinct = distinct scenarios")
COMPONENTS = {"real": ["whole Deep agent", "push conversion", "generated stubs + protobuf (de)serialisation", "auth providers"],
              "stub": ["threads/clock/executor", "gRPC channel + DEEP service"]}
ASSUMPTIONS = ["text that is not valid UTF-8 cannot be carried unchanged by protobuf: its backslash-escaped form is accepted",
               "a caching GRPCService may keep sending an earlier value of a rotating provider: any value the provider "
               "has supplied so far is accepted"]
TEXT = ("Seeded exploration; independent field-by-field expectation (from the .proto field list) against the bytes "
        "received by the fake transport, metadata on every call, message loss inside the agent visible as 'handed "
        "over, never received'.")
NOTE = "The fake channel runs the real request serialiser / response deserialiser of the generated stubs."
TECHNIQUE = "deterministic simulation: fake transport under real stubs, independent wire expectation, send-fault injection"

AUTHS = ("none", "basic", "basic-unicode", "fixed", "rotating", "flaky", "slow")


def generate(seed, tier):
    r = random.Random(seed)
    opts = {"n": r.randrange(0, 8), "sharing": r.random() < 0.3, "cycles": r.random() < 0.2,
            "offenders": r.random() < 0.4, "big": r.random() < 0.2}
    tps = []
    for i in range(r.choice((1, 1, 2))):
        tp = {"id": "tp%d" % i, "line": r.choice(("mark", "after")), "via": "service", "args": {},
              "watches": r.sample(("depth", "ctx", "nosuch", "1/0", "'lone \\ud800'", "[depth, ctx]", "out", "ClockBack()",
                                   "next(iter(()))"),
                                  r.choice((0, 1, 2, 3)))}
        if r.random() < 0.4:
            tp["args"]["log_msg"] = r.choice(("plain", "d={depth}", "bad {nosuch} {depth}", "{{x}}"))
        if r.random() < 0.3:
            tp["args"]["frame_type"] = r.choice(("all_frame", "no_frame"))
        if r.random() < 0.25:
            # deferred: collected at the call line, completed (with the returned value) and handed over when it ends
            tp["line"] = "midcall"
            tp["args"]["stage"] = "line_capture"
        if r.random() < 0.12:
            # a tracepoint whose own text is not valid UTF-8 (registered in code with text that came from a file name or
            # the environment): only such a tracepoint can carry it, the service cannot send it
            tp["via"] = "direct"
            tp["watches"] = tp["watches"] + ["'caf\udce9'"]
            if r.random() < 0.5:
                tp["args"]["log_msg"] = "user \udce9 {depth}"
        tps.append(tp)
    return {"prog": {"seed": seed, "name": "simval_%d" % (seed % 5), "opts": opts}, "tps": tps,
            "threads": [r.choice((1, 2))] if r.random() < 0.7 else [1, 1], "auth": r.choice(AUTHS),
            "send_errors": sorted(r.sample(range(6), r.choice((0, 0, 1, 2)))),
            # attribute values the attribute model accepts but that are awkward on the wire; a thread whose name is not UTF-8
            "odd_attrs": r.random() < 0.25, "odd_thread": r.random() < 0.15,
            "knobs": common.draw_knobs(r, stall_p=0.0)}


def shrink_candidates(s):
    for cand in common.drop_one(s["tps"]):
        if cand:
            yield dict(s, tps=cand)
    for i, tp in enumerate(s["tps"]):
        for wl in common.drop_one(tp["watches"]):
            yield dict(s, tps=s["tps"][:i] + [dict(tp, watches=wl)] + s["tps"][i + 1:])
    if s["send_errors"]:
        yield dict(s, send_errors=[])
    if s["auth"] != "none":
        yield dict(s, auth="none")
    for key in ("odd_attrs", "odd_thread"):
        if s.get(key):
            yield dict(s, **{key: False})
    o = s["prog"]["opts"]
    if o["n"]:
        yield dict(s, prog=dict(s["prog"], opts=dict(o, n=o["n"] - 1)))


def _any(v):
    """Independent python -> AnyValue expectation as (field, value)."""
    if isinstance(v, bool):
        return ("bool_value", v)
    if isinstance(v, str):
        return ("string_value", esc(v))
    if isinstance(v, int):
        if not -2 ** 63 <= v < 2 ** 63:
            return ("string_value", str(v))       # does not fit the wire's integer: any lossless form will do, text is one
        return ("int_value", v)
    if isinstance(v, float):
        return ("double_value", v)
    if isinstance(v, bytes):
        return ("bytes_value", v)
    if isinstance(v, (list, tuple)):
        return ("array_value", [_any(x) for x in v])
    if isinstance(v, dict):
        return ("kvlist_value", {k_: _any(x) for k_, x in v.items()})
    return (None, None)


def _got_any(av):
    w = av.WhichOneof("value")
    if w is None:
        return (None, None)
    x = getattr(av, w)
    if w == "array_value":
        return (w, [_got_any(i) for i in x.values])
    if w == "kvlist_value":
        return (w, {kv.key: _got_any(kv.value) for kv in x.values})
    return (w, x)


def compare(es, snap):
    """Field-by-field: python EventSnapshot (as handed over) vs parsed protobuf Snapshot (as received)."""
    out = []

    def diff(field, a, b):
        if isinstance(a, dict) and isinstance(b, dict) and a != b:
            keys = sorted(k_ for k_ in set(a) | set(b) if a.get(k_, "<absent>") != b.get(k_, "<absent>"))
            out.append((field, "keys %s: handed over %r, received %r" % (keys, [a.get(k_, "<absent>") for k_ in keys][:3],
                                                                         [b.get(k_, "<absent>") for k_ in keys][:3])))
            return
        if a != b:
            out.append((field, "handed over %r, received %r" % (a if len(repr(a)) < 120 else repr(a)[:120], b if len(repr(b)) < 120 else repr(b)[:120])))
    diff("ID", es.id.to_bytes(16, "big"), snap.ID)
    t = es.tracepoint
    diff("tracepoint.ID", t.id, snap.tracepoint.ID)
    diff("tracepoint.path", esc(t.path), snap.tracepoint.path)
    diff("tracepoint.line_number", t.line_no, snap.tracepoint.line_number)
    # (text that is not valid UTF-8 arrives escaped, as everywhere else in the message)
    diff("tracepoint.args", {esc(k_): esc(v_) for k_, v_ in dict(t.args).items()}, dict(snap.tracepoint.args))
    diff("tracepoint.watches", [esc(x) for x in t.watches], list(snap.tracepoint.watches))
    diff("ts_nanos", es.ts_nanos, snap.ts_nanos)
    diff("duration_nanos", es.duration_nanos, snap.duration_nanos)
    diff("log_msg", esc(es.log_msg or ""), snap.log_msg)
    diff("frames.count", len(es.frames), len(snap.frames))
    for i, (f, g) in enumerate(zip(es.frames, snap.frames)):
        for name, a, b in (("file_name", f.file_name, g.file_name), ("short_path", f.short_path, g.short_path),
                           ("method_name", f.method_name, g.method_name), ("line_number", f.line_number, g.line_number),
                           ("class_name", f.class_name or "", g.class_name), ("is_async", f.is_async, g.is_async),
                           ("column_number", f.column_number, g.column_number), ("app_frame", bool(f.app_frame), g.app_frame),
                           ("transpiled_file_name", f.transpiled_file_name or "", g.transpiled_file_name),
                           ("transpiled_line_number", f.transpiled_line_number, g.transpiled_line_number),
                           ("transpiled_column_number", f.transpiled_column_number, g.transpiled_column_number)):
            diff("frames[%d].%s" % (i, name), esc(a) if isinstance(a, str) else a, b)
        diff("frames[%d].variables" % i, [(v.vid, esc(v.name), list(v.modifiers or []), esc(v.original_name or "")) for v in f.variables],
             [(v.ID, v.name, list(v.modifiers), v.original_name) for v in g.variables])
    diff("var_lookup.keys", sorted(es.var_lookup.keys()), sorted(snap.var_lookup.keys()))
    for key, v in es.var_lookup.items():
        if key not in snap.var_lookup:
            continue
        g = snap.var_lookup[key]
        diff("var_lookup[%s].type" % key, esc(v.type), g.type)
        diff("var_lookup[%s].value" % key, esc(v.value), g.value)
        diff("var_lookup[%s].hash" % key, v.hash, g.hash)
        diff("var_lookup[%s].truncated" % key, bool(v.truncated), g.truncated)
        diff("var_lookup[%s].children" % key, [(c.vid, esc(c.name), list(c.modifiers or []), esc(c.original_name or "")) for c in v.children],
             [(c.ID, c.name, list(c.modifiers), c.original_name) for c in g.children])
    diff("watches.count", len(es.watches), len(snap.watches))
    srcs = {"WATCH": 0, "LOG": 1, "METRIC": 2, "CAPTURE": 3}
    for i, (w_, g) in enumerate(zip(es.watches, snap.watches)):
        diff("watches[%d].expression" % i, esc(w_.expression), g.expression)
        diff("watches[%d].source" % i, srcs.get(w_.source), g.source)
        if w_.result is not None:
            diff("watches[%d].good_result" % i, (w_.result.vid, esc(w_.result.name)), (g.good_result.ID, g.good_result.name))
            diff("watches[%d].has_good" % i, True, g.HasField("good_result"))
        else:
            diff("watches[%d].has_good" % i, False, g.HasField("good_result"))
        diff("watches[%d].error_result" % i, esc(w_.error or ""), g.error_result)
        # which of the two it is has to arrive as well: an error without a text (StopIteration()) is still an error
        diff("watches[%d].kind" % i, "error_result" if w_.result is None else "good_result", g.WhichOneof("result"))
    diff("attributes", {k_: _any(v_) for k_, v_ in es.attributes.items()}, {kv.key: _got_any(kv.value) for kv in snap.attributes})
    diff("resource", {k_: _any(v_) for k_, v_ in es.resource.attributes.items()}, {kv.key: _got_any(kv.value) for kv in snap.resource})
    return out


def execute(scenario, ch):
    sc = dict(scenario, tps=[dict(t) for t in scenario["tps"]], ref_depth=3)
    auth = scenario["auth"]
    cfg = {}
    want_md = []
    if auth.startswith("basic"):
        user, pw = ("bob", "s3cret") if auth == "basic" else ("zoë", "pässwörd ✓")
        cfg.update(SERVICE_AUTH_PROVIDER="deep.api.auth.BasicAuthProvider", SERVICE_USERNAME=user, SERVICE_PASSWORD=pw)
        want_md = [[("authorization", "Basic%20" + base64.b64encode((user + ":" + pw).encode("utf-8")).decode("ascii"))]]
    elif auth == "fixed":
        cfg.update(SERVICE_AUTH_PROVIDER="simkit.simauth.FixedProvider")
        want_md = [[("x-api-key", "k-123"), ("x-tenant", "tenant one")]]
    elif auth == "rotating":
        cfg.update(SERVICE_AUTH_PROVIDER="simkit.simauth.RotatingProvider")
        want_md = None
    elif auth == "flaky":
        # the first call of the provider fails (that request cannot be sent); every request that IS sent afterwards
        # must carry what the provider supplies
        cfg.update(SERVICE_AUTH_PROVIDER="simkit.simauth.FlakyProvider")
        want_md = [[("authorization", "Bearer recovered")]]
    elif auth == "slow":
        cfg.update(SERVICE_AUTH_PROVIDER="simkit.simauth.SlowProvider")
        want_md = [[("authorization", "Bearer slow-token")]]
    else:
        want_md = [[]]
    del simauth.CALLS[:]
    sc["cfg"] = cfg
    sc["plugins"] = [{"name": "DecoAll", "kinds": ["decorator", "resource"],
                      "decorate": {"d_str": "text é", "d_bool": True, "d_int": 7, "d_float": 2.5, "d_list": ["a", "b"],
                                   "d_ints": [1, 2, 3], "d_bytes": b"raw"},
                      "resource": {"r_str": "res", "r_list": ["x", "y"], "r_int": 3, "r_bool": False}}]
    if scenario.get("odd_attrs"):
        sc["plugins"][0]["decorate"].update({"d_file": "report-\udcff.csv", "d_gaps": [1, None, 3], "d_hash": 2 ** 64 - 1})
        sc["plugins"][0]["resource"].update({"r_name": "caf\udce9", "r_big": -2 ** 70, "r_opt": ["a", None]})
    if scenario.get("odd_thread"):
        sc["thread_names"] = ["worker-\udcff", "worker-caf\udce9"]
    errs = set(scenario["send_errors"])
    sc["send_faults"] = (lambda idx: {"kind": "error"} if idx in errs else None)
    k, cases, ctx = snapcommon.run_cases(sc, ch)
    if k.capped and not k.hang:
        return common.result(k, [])     # cut off by the step / time budget: a half-done run, inconclusive
    viol = []
    w = ctx["world"]
    svc = w.service
    compared = 0
    failed_ids = set()
    got_ids = {sn.ID.hex() for (_, _, sn, _) in svc.snapshots}
    attempts = {}
    for (_, _, hexid) in svc.send_attempts:
        attempts[hexid] = attempts.get(hexid, 0) + 1
    for (_, th, es) in w.pushed:
        hid = format(es.id, "032x")
        n_att = attempts.get(hid, 0)
        if n_att == 0:
            viol.append(V("handed-over-never-sent", "snapshot %s of %s: conversion/serialisation lost it; errors %s" % (
                hid, es.tracepoint.id, [x for x in ctx["logs"] if x[0] == "ERROR"][:2])))
            continue
        if n_att > 1:
            viol.append(V("sent-%d-times" % n_att, hid))
        wire = ctx["wire"].get(hid)
        if not wire:
            continue   # the injected send error hit this one: nothing to compare (C09 covers containment)
        compared += 1
        for field, detail in compare(es, wire[0]):
            base = field.split("[")[0] + (field[field.index("]") + 1:] if "]" in field else "")
            viol.append(V("field-differs:%s" % base, "%s: %s" % (field, detail)))
    # a failed send must not disturb the following ones
    n_err = sum(1 for i in errs if i < len(svc.send_attempts))
    if len(svc.snapshots) != len(svc.send_attempts) - n_err:
        viol.append(V("send-error-disturbed-other-sends", "%d attempts, %d injected errors, %d received" % (
            len(svc.send_attempts), n_err, len(svc.snapshots))))
    # metadata on every call
    supplied = None
    for (now, th, h, md, res) in svc.polls:
        if want_md is not None and md not in want_md:
            viol.append(V("poll-metadata:%s" % auth, "poll carried %r, provider supplies %r" % (md, want_md)))
            break
        if want_md is None and not (md and md[0][0] == "authorization" and md[0][1].startswith("Bearer token-")):
            viol.append(V("poll-metadata:%s" % auth, "poll carried %r" % (md,)))
            break
    for (now, th, sn, md) in svc.snapshots:
        if want_md is not None and md not in want_md:
            viol.append(V("send-metadata:%s" % auth, "send carried %r, provider supplies %r" % (md, want_md)))
            break
        if want_md is None and not (md and md[0][0] == "authorization" and md[0][1].startswith("Bearer token-")):
            viol.append(V("send-metadata:%s" % auth, "send carried %r" % (md,)))
            break
    if ctx.get("raised"):
        viol.append(V("trace-call-raised:%s" % ctx["raised"][0][5], str(ctx["raised"][0])))
    k.probe("snapshots_compared", compared)
    k.probe("send_errors_injected", n_err)
    key = repr((scenario["prog"], scenario["tps"], scenario["auth"], scenario["send_errors"])) if compared else None
    return common.result(k, snapcommon.dedup(viol), key=key, sub=max(compared, 1))
