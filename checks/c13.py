"""C13 - registering a tracepoint in code returns a handle that removes exactly it.

Histories of register / unregister (also twice) calls - many registrations share file and line and are told apart
by a unique watch - interleaved with service updates and thread switches, against a multiset model; judged by a
behavioural probe at quiescence (which watches fire on which line).
"""
import os
import random
import sys

from simkit import common, hostgen, world, shims, kernel, linetrace, seams
from simkit.common import V

ID = "C13"
LEVEL = "exploration"
BUDGET = {"quick": (2500, 35), "thorough": (600_000, 540)}
RULE = ("histories of 2-12 operations: register(path, line in 3 lines, unique watch, optional metric/args), "
        "unregister(handle) incl. repeated, service publishes a configuration that may use the same lines, sleeps, shutdown + start with register / unregister calls while stopped; "
        "1-2 application threads issuing them; seeded schedules incl. line-level pre-emption in deep/config; "
        "non-trivial = a history in which two registrations shared a location and one of them was unregistered, or "
        "a service update was interleaved; distinct = distinct (history, outcome) keys")
COMPONENTS = {"real": ["whole Deep agent (NO_TRACE): Deep.register_tracepoint, TracepointRegistration, "
                       "TracepointConfigService, TaskHandler, TriggerHandler, LongPoll"],
              "stub": ["threads/clock/executor", "gRPC channel + scripted DEEP service"]}
ASSUMPTIONS = ["registrations are distinguished by a unique watch expression carried into the snapshot's tracepoint block"]
TEXT = ("Seeded exploration of register/unregister histories with interleaved service updates against a multiset "
        "model, observed through a behavioural probe (snapshots produced per line, by watch marker).")
NOTE = "Same trusted base as C12."
TECHNIQUE = "deterministic simulation: operation histories vs multiset model, behavioural probe at quiescence"

LINES = 3
PROBE_SRC = "def probe_fn():\n" + "".join("    probe(%d)\n" % i for i in range(1, LINES + 4)) + "    return 0\n"


def generate(seed, tier):
    r = random.Random(seed)
    ops = []
    live = []
    nreg = 0
    cfg = 0
    for _ in range(r.randrange(2, 13)):
        k = r.random()
        if k < 0.45:
            nreg += 1
            live.append(nreg)
            ops.append({"op": "register", "reg": nreg, "line": r.choice((1, 1, 2, 3)),
                        "metric": r.random() < 0.2, "thread": r.randrange(2)})
        elif k < 0.75 and nreg:
            # unregister any handle ever obtained (so: also twice)
            ops.append({"op": "unregister", "reg": r.randrange(1, nreg + 1), "thread": r.randrange(2)})
        elif k < 0.87:
            cfg += 1
            ops.append({"op": "publish", "cfg": cfg, "lines": sorted(r.sample((1, 2, 3), r.randrange(0, 3)))})
        elif k < 0.90:
            ops.append({"op": "poll"})          # a poll that finds nothing new
        elif k < 0.94:
            # the agent is shut down and started again; while it is stopped the application uses its handles and
            # registers: a stopped agent may refuse that (visibly), it must not half apply it
            op = {"op": "bounce", "stopped": []}
            if nreg and r.random() < 0.6:
                op["stopped"].append(["unregister", r.randrange(1, nreg + 1)])
            if r.random() < 0.5:
                nreg += 1
                op["stopped"].append(["register", nreg, r.choice((1, 2, 3))])
            ops.append(op)
        else:
            ops.append({"op": "sleep", "s": r.choice((0.0, 1.0, 11.0))})
    if live and r.random() < 0.08:
        # the end of the process: the main thread has returned, python has retired the worker pool (every later hand-over
        # raises RuntimeError), a non-daemon application thread carries on and uses a handle - twice
        victim = r.choice(live)
        ops.append({"op": "pool-dies"})
        ops.append({"op": "unregister", "reg": victim, "thread": 0})
        ops.append({"op": "unregister", "reg": victim, "thread": 0})
    # the service stamps its answers with ITS clock: in step with the agent's, stuck at 0, running backwards, or jumping
    return {"ops": ops, "line_level": r.random() < 0.5, "two_threads": r.random() < 0.4,
            "svc_clock": r.choice(("steady", "steady", "zero", "backwards", "jumpy")),
            # the application fills one scratch list per call and reuses it for the next registration
            "scratch_lists": r.random() < 0.3,
            "knobs": common.race_knobs(r, stall_p=0.0)}


def shrink_candidates(s):
    for cand in common.drop_one(s["ops"]):
        regs = {o["reg"] for o in cand if o["op"] == "register"} | {
            x[1] for o in cand if o["op"] == "bounce" for x in o["stopped"] if x[0] == "register"}
        if all(o["reg"] in regs for o in cand if o["op"] == "unregister"):
            yield dict(s, ops=cand)
    if s["two_threads"]:
        yield dict(s, two_threads=False)
    if s["line_level"]:
        yield dict(s, line_level=False)
    if s.get("svc_clock", "steady") != "steady":
        yield dict(s, svc_clock="steady")
    if s.get("scratch_lists"):
        yield dict(s, scratch_lists=False)


def execute(s, ch):
    viol = []
    info = {"shared_unreg": False, "final": None, "publishes": 0}

    def main(k):
        from deep.api.tracepoint.tracepoint_config import MetricDefinition
        p = hostgen.start_program("simreg", prelude=False)
        for ln in PROBE_SRC.strip("\n").split("\n"):
            p.lines.append(ln)
        p.finish()
        w = world.World(k, cfg={"NO_TRACE": True}, python_plugin=False,
                        plugins=[{"name": "RecMetric", "kinds": ["metric"]}])
        svc = w.service
        clock = s.get("svc_clock", "steady")
        if clock != "steady":
            k.fault("service_clock_%s" % clock)
            svc.ts_fn = {"zero": lambda idx, now: 0,
                         "backwards": lambda idx, now: max(1, 10**18 - idx * 10**9),
                         "jumpy": lambda idx, now: max(1, now + ((idx * 2654435761) % 7200 - 3600) * 10**9)}[clock]
        tracer = None
        if s["line_level"]:
            src = seams.SRC
            tracer = linetrace.LineTracer(k, (os.path.join(src, "deep/config"), os.path.join(src, "deep/api/deep.py"),
                                              os.path.join(src, "deep/task")))
            tracer.install()
        w.start()
        handles = {}
        scratch_w, scratch_m = [], []
        model = {}          # reg -> line   (live registrations)
        reg_line = {}
        svc_lines = []
        errors = []

        down = {"n": 0}

        def refused(e, since):
            # the other application thread has shut the agent down (or did, while this call was under way): a visible
            # refusal - the call changed nothing, the model stays as it is
            from deep.task import IllegalStateException
            if isinstance(e, IllegalStateException) and (down["n"] or since != down.get("gen", 0)):
                k.fault("refused_while_stopped")
                return True
            return False

        def run_op(o):
            since = down.get("gen", 0)
            if o["op"] == "sleep":
                k.sleep(o["s"])
            elif o["op"] == "publish":
                tps = [svc.make_tp("svc@%d" % ln, p.basename, 1 + ln, {"fire_count": "-1", "fire_period": "0"},
                                   ["'svc%d'" % ln]) for ln in o["lines"]]
                svc.set_config(tps, "h%d" % o["cfg"])
                svc_lines[:] = o["lines"]
                info["publishes"] += 1
                try:
                    w.deep.poll.poll()
                except kernel.SimKilled:
                    raise
                except BaseException as e:  # noqa
                    errors.append(("poll", repr(e)))
            elif o["op"] == "poll":
                try:
                    w.deep.poll.poll()
                except kernel.SimKilled:
                    raise
                except BaseException as e:  # noqa
                    errors.append(("poll", repr(e)))
            elif o["op"] == "register":
                ms = [MetricDefinition("m_reg%d" % o["reg"], "COUNTER")] if o["metric"] else []
                wl = ["'reg%d'" % o["reg"]]
                if s.get("scratch_lists") and not s["two_threads"]:
                    scratch_w[:] = wl
                    scratch_m[:] = ms
                    wl, ms = scratch_w, scratch_m
                try:
                    handles[o["reg"]] = w.deep.register_tracepoint(
                        p.basename, 1 + o["line"], {"fire_count": "-1", "fire_period": "0"}, wl, ms)
                    model[o["reg"]] = o["line"]
                    reg_line[o["reg"]] = o["line"]
                except kernel.SimKilled:
                    raise
                except BaseException as e:  # noqa
                    if isinstance(e, RuntimeError) and w.deep.task_handler._pool._shutdown:
                        k.fault("refused_by_retired_pool")
                    elif not refused(e, since):
                        errors.append(("register", repr(e)))
            elif o["op"] == "pool-dies":
                k.fault("worker_pool_retired")
                w.deep.task_handler._pool._shutdown = True
            elif o["op"] == "bounce":
                k.fault("restart")
                down["n"] += 1
                down["gen"] = down.get("gen", 0) + 1
                try:
                    w.deep.shutdown()
                except kernel.SimKilled:
                    raise
                except BaseException as e:  # noqa
                    errors.append(("shutdown", repr(e)))
                again = []
                for st in o["stopped"]:
                    try:
                        if st[0] == "register":
                            handles[st[1]] = w.deep.register_tracepoint(
                                p.basename, 1 + st[2], {"fire_count": "-1", "fire_period": "0"}, ["'reg%d'" % st[1]], [])
                            model[st[1]] = st[2]
                        elif handles.get(st[1]) is not None:
                            handles[st[1]].unregister()
                            model.pop(st[1], None)
                    except kernel.SimKilled:
                        raise
                    except BaseException:  # noqa
                        k.fault("refused_while_stopped")
                        if st[0] == "unregister":
                            again.append(st[1])
                w.start()
                down["n"] -= 1
                for reg in again:
                    # the handle is used again now that the agent runs: this time it has to take effect
                    try:
                        handles[reg].unregister()
                        model.pop(reg, None)
                    except kernel.SimKilled:
                        raise
                    except BaseException as e:  # noqa
                        errors.append(("unregister", repr(e)))
            elif o["op"] == "unregister":
                h = handles.get(o["reg"])
                if h is None:
                    return
                if o["reg"] in model and any(r_ != o["reg"] and ln == model[o["reg"]] for r_, ln in model.items()):
                    info["shared_unreg"] = True
                try:
                    h.unregister()
                    model.pop(o["reg"], None)
                except kernel.SimKilled:
                    raise
                except BaseException as e:  # noqa
                    if isinstance(e, RuntimeError) and w.deep.task_handler._pool._shutdown:
                        k.fault("refused_by_retired_pool")     # visible, and nothing changed: the model stays as it is
                    elif not refused(e, since):
                        errors.append(("unregister", repr(e)))
        if s["two_threads"]:
            # operations keep their program order per thread; registrations/unregistrations of one handle stay ordered
            # because the harness waits for a handle to exist before unregistering it
            qs = {0: [], 1: []}
            for o in s["ops"]:
                qs[o.get("thread", 0)].append(o)
            done = set()

            def worker(q):
                for o in q:
                    if o["op"] == "unregister":
                        k.block_until(lambda o=o: o["reg"] in handles or o["reg"] in done, k.now_ns + 5 * 10**9, why="await-handle")
                    run_op(o)
                    if o["op"] == "register":
                        done.add(o["reg"])
            ts = [shims.SimThread(target=worker, args=(qs[i],), name="app%d" % i) for i in (0, 1)]
            for t in ts:
                t.start()
            for t in ts:
                t.join()
        else:
            for o in s["ops"]:
                run_op(o)
        k.sleep(25)
        k.settle()
        if tracer is not None:
            tracer.uninstall()
        for e in errors:
            viol.append(V("operation-raised:%s" % e[0], e[1]))
        # ------------------------------------------------ probe: which watch markers fire on which line
        handler = w.handler
        n0 = len(w.pushed)
        m0 = len(w.sink.calls)

        def probe(i):
            handler.trace_call(sys._getframe(1), "line", None)
        g = p.load({"probe": probe})
        g["probe_fn"]()
        got = sorted((es.tracepoint.line_no - 1, (list(es.tracepoint.watches) or ["?"])[0].strip("'"))
                     for (_, _, es) in w.pushed[n0:])
        if s["two_threads"]:
            # with two threads the model depends on the order in which the operations took effect: recompute it from
            # the order in which they returned (recorded above in `model` as they happened)
            pass
        want = sorted([(ln, "reg%d" % r_) for r_, ln in model.items()] + [(ln, "svc%d" % ln) for ln in svc_lines])
        info["final"] = (got, want)
        k.log("final", got, want)
        if got != want:
            lost = [x for x in want if x not in got]
            extra = [x for x in got if x not in want]
            kind = "removed-registration-still-active+other-removed" if lost and extra else \
                "registration-or-service-tracepoint-missing" if lost else "removed-registration-still-active"
            viol.append(V("wrong-active-set:%s" % kind, "active (line, marker) %s, model %s; missing %s, unexpected %s; "
                          "history %s" % (got, want, lost, extra, [(o["op"], o.get("reg"), o.get("line")) for o in s["ops"]])))
        mets = sorted(c[4][0] for c in w.sink.calls[m0:] if c[2] == "counter")
        want_m = sorted("m_reg%d" % o["reg"] for o in s["ops"] if o["op"] == "register" and o["metric"] and o["reg"] in model)
        if mets != want_m and got == want:
            viol.append(V("registered-metrics-wrong", "%s vs %s" % (mets, want_m)))
        k.probe("unregister_with_shared_location", 1 if info["shared_unreg"] else 0)
        try:
            w.deep.shutdown()
        except BaseException as e:  # noqa
            if isinstance(e, kernel.SimKilled):
                raise
        w.close()

    k = common.run_in_kernel(ch, s["knobs"], main)
    key = repr((s["ops"], info["final"])) if info["shared_unreg"] or info["publishes"] else None
    return common.result(k, viol, key=key)
