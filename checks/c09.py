"""C09 - delivery runs off the application thread, exactly once, and flush really drains.

Real TaskHandler + PushService + concurrent.futures.Future + generated stubs/serialisers on SimExecutor and the
simulated service; line-level pre-emption inside deep/task and deep/push (mode D); faults: unconvertible snapshots,
send RpcErrors, slow sends, failing and slow raw tasks, stalls, submissions racing with and following flush.
"""
import os
import random

from simkit import common, kernel, seams, shims, fakegrpc, linetrace
from simkit.common import V

ID = "C09"
LEVEL = "exploration"
BUDGET = {"quick": (6000, 35), "thorough": (2_000_000, 540)}
RULE = ("seeded generation of submit/flush histories (1-3 application threads, 1-8 snapshots or raw tasks, some "
        "unconvertible / failing / slow, flush placed in any thread, submissions after close) x seeded schedules "
        "with a pre-emption point at every line of deep/task and deep/push; non-trivial = at least one task was "
        "accepted and flush was called; distinct = distinct (history, outcome order) keys")
COMPONENTS = {"real": ["deep.task.TaskHandler", "deep.push.PushService", "deep.push.convert_snapshot",
                       "concurrent.futures.Future", "generated SnapshotServiceStub + protobuf"],
              "stub": ["ThreadPoolExecutor -> SimExecutor", "threading primitives", "gRPC channel + DEEP service"]}
ASSUMPTIONS = ["tasks take < 10 simulated seconds (flush's own per-future wait)",
               "SimExecutor mirrors ThreadPoolExecutor: FIFO, lazy worker start, max 2 workers, BaseException capture"]


def generate(seed, tier):
    r = random.Random(seed)
    if r.random() < 0.06:
        # arm "own-code": the whole agent, tracing live. A tracepoint of the service names a file and line that also exist
        # in the agent's own task module (locations match on the base name: '__init__.py'), and the application hands
        # work to the task handler on its own, traced, thread (register / unregister) - the hand-over of the snapshot
        # taken there runs into the hand-over it interrupts
        return {"arm": "own-code", "line_pick": r.randrange(1000), "n": r.choice((1, 2, 3)),
                "where": r.choice(("agent", "stdlib")),
                "knobs": dict(common.draw_knobs(r, stall_p=0.0), trace_self=True)}
    if r.random() < 0.05:
        # arm "lives": the whole agent, started and shut down two or three times; in every life the application hits a
        # snapshot tracepoint - what is handed over in any life is sent exactly once, in that life
        return {"arm": "lives", "lives": r.choice((2, 2, 3)), "hits": [r.choice((1, 2, 3)) for _ in range(3)],
                "hit_during_start": r.random() < 0.5,
                "knobs": dict(common.draw_knobs(r, stall_p=0.0), trace_self=False)}
    nthreads = r.choice((1, 1, 2, 3))
    sid = 0
    threads = []
    for t in range(nthreads):
        ops = []
        for _ in range(r.randrange(1, 5)):
            kind = r.random()
            sid += 1
            if kind < 0.7:
                ops.append({"op": "push", "sid": sid, "conv": r.random() > 0.2,
                            "send": r.choice(("ok", "ok", "ok", "error")),
                            "delay": r.choice((0, 0, 0.001, 0.5, 3.0))})
            else:
                ops.append({"op": "task", "sid": sid, "fail": r.random() < 0.4, "delay": r.choice((0, 0, 0.01, 2.0)),
                            "base": r.random() < 0.2})
            if r.random() < 0.3:
                ops.append({"op": "sleep", "s": r.choice((0.0001, 0.01, 1.0))})
        threads.append(ops)
    ft = r.randrange(nthreads)
    pos = len(threads[ft]) if r.random() < 0.6 else r.randrange(len(threads[ft]) + 1)
    threads[ft].insert(pos, {"op": "flush"})
    post = []
    for _ in range(r.choice((0, 0, 1, 2))):
        sid += 1
        post.append({"op": "push", "sid": sid, "conv": True, "send": "ok", "delay": 0})
    knobs = common.race_knobs(r, line_level=r.random() < 0.7, stall_ns=[1_000_000, 1_500_000_000])
    return {"threads": threads, "post": post, "knobs": knobs}


def shrink_candidates(s):
    if s.get("arm") == "own-code":
        if s["n"] > 1:
            yield dict(s, n=s["n"] - 1)
        return
    if s.get("arm") == "lives":
        if s["lives"] > 2:
            yield dict(s, lives=2)
        return
    for ti, ops in enumerate(s["threads"]):
        for cand in common.drop_one(ops):
            if not any(o["op"] == "flush" for t2 in (s["threads"][:ti] + [cand] + s["threads"][ti + 1:]) for o in t2):
                continue
            c = dict(s)
            c["threads"] = s["threads"][:ti] + [cand] + s["threads"][ti + 1:]
            yield c
    for cand in common.drop_one(s["post"]):
        c = dict(s)
        c["post"] = cand
        yield c
    for ti, ops in enumerate(s["threads"]):
        for oi, o in enumerate(ops):
            for key, simple in (("delay", 0), ("send", "ok"), ("conv", True), ("fail", False)):
                if key in o and o[key] != simple:
                    c = dict(s)
                    no = dict(o)
                    no[key] = simple
                    c["threads"] = [list(x) for x in s["threads"]]
                    c["threads"][ti][oi] = no
                    yield c
    if s["knobs"].get("line_level"):
        c = dict(s)
        c["knobs"] = dict(s["knobs"], line_level=False)
        yield c


class _RawFail(Exception):
    pass


class _RawFailBase(BaseException):
    pass


def _own_code(s, ch):
    from simkit import world
    viol = []
    info = {"hits": 0}

    def main(k):
        w = world.World(k, python_plugin=False)
        w.start()
        k.settle()
        import inspect
        import deep.task as dt
        src, first = inspect.getsourcelines(dt.TaskHandler.submit_task)
        body = [first + i for i, ln in enumerate(src) if ln.strip() and not ln.strip().startswith(("#", '"""', ":", "def "))
                and i > 8]
        line = body[s["line_pick"] % len(body)]
        tp_file = os.path.basename(dt.__file__)
        if s.get("where") == "stdlib":
            # ... or in the code of the standard library that the hand-over calls with its lock held (thread.py)
            tp_file, line = "thread.py", 3
        info["line"] = (tp_file, line)
        args = {"fire_count": "-1", "fire_period": "0"}
        w.service.set_config([w.service.make_tp("tpOWN", tp_file, line, args, [])], "h1")
        w.deep.poll.poll()
        common.wait_until(k, lambda: len(w.handler._tp_config) > 0, 60)
        done = []

        def app():
            for i in range(s["n"]):
                h = w.deep.register_tracepoint("nowhere.py", 1 + i, {}, [])
                h.unregister()
                done.append(i)
        t = shims.SimThread(target=app, name="app0")
        t.start()
        t.join()
        common.wait_delivery(k, w, 60)
        info["hits"] = len(w.pushed)
        if len(done) != s["n"]:
            viol.append(V("own-code:application-call-did-not-return", "%d of %d register/unregister rounds" % (len(done), s["n"])))
        sent = {sn.ID.hex() for (_, _, sn, _) in w.service.snapshots}
        for (_, th, es) in w.pushed:
            if format(es.id, "032x") not in sent:
                viol.append(V("own-code:handed-over-never-sent", "snapshot of %s pushed by %s" % (es.tracepoint.id, th)))
                break
        w.deep.shutdown()
        w.close()

    k = common.run_in_kernel(ch, s["knobs"], main)
    k.probe("own_code_hits", info["hits"])
    return common.result(k, viol, key=repr(("own-code", info.get("line"), s["n"])))


LIVES_SRC = "def work(i):\n    x = i * 2\n    return x\n"


def _lives(s, ch):
    from simkit import world, hostgen
    viol = []
    info = {"n": 0}

    def main(k):
        p = hostgen.start_program("simlives", prelude=False)
        for ln in LIVES_SRC.strip("\n").split("\n"):
            p.lines.append(ln)
        p.finish()
        w = world.World(k, python_plugin=False)
        g = p.load()
        w.service.set_config([w.service.make_tp("tpL", p.basename, 2, {"fire_count": "-1", "fire_period": "0"}, [])], "h1")
        for life in range(s["lives"]):
            if life:
                k.fault("restart")
                if s.get("hit_during_start"):
                    # an application thread reaches the tracepoint while the new life's channel is being created
                    def early():
                        w.service.on_channel = None
                        k.fault("hit_while_starting")
                        te = shims.SimThread(target=lambda: g["work"](99), name="early%d" % life)
                        te.start()
                        te.join()
                    w.service.on_channel = early
            w.start()
            common.wait_until(k, lambda: len(w.handler._tp_config) > 0, 60)
            n0, r0 = len(w.pushed), len(w.service.snapshots)

            def app(life=life):
                for i in range(s["hits"][life]):
                    g["work"](i)
            t = shims.SimThread(target=app, name="app%d" % life)
            t.start()
            t.join()
            common.wait_delivery(k, w, 60)
            w.deep.shutdown()
            pushed = [format(es.id, "032x") for (_, _, es) in w.pushed[n0:]]
            got = [sn.ID.hex() for (_, _, sn, _) in w.service.snapshots[r0:]]
            info["n"] += len(pushed)
            early_n = len([1 for (_, th, _) in w.pushed[n0:] if th.startswith("early")])
            if len(pushed) - early_n != s["hits"][life]:
                viol.append(V("lives:not-handed-over", "life %d: %d hits, %d snapshots handed over" % (life + 1, s["hits"][life], len(pushed))))
            for sid in pushed:
                if got.count(sid) != 1:
                    viol.append(V("lives:send-count:%d" % got.count(sid), "life %d of the agent: a snapshot handed over in this "
                                  "life was received %d times before its shutdown returned (errors logged: %s)" % (
                                      life + 1, got.count(sid), [r_[2] for r_ in w.logs.records if r_[0] == "ERROR"][:2])))
                    break
        w.close()

    k = common.run_in_kernel(ch, s["knobs"], main)
    k.probe("lives_snapshots", info["n"])
    return common.result(k, viol, key=repr(("lives", s["lives"], s["hits"])))


def execute(scenario, ch):
    if scenario.get("arm") == "own-code":
        return _own_code(scenario, ch)
    if scenario.get("arm") == "lives":
        return _lives(scenario, ch)
    hist = {"accept": {}, "flush": [], "convert": {}, "ran": {}, "post": {}}
    viol = []

    def main(k):
        seams.reset_process_state()
        logs = seams.capture_logs()
        svc = fakegrpc.SimService()
        fakegrpc.SERVICE = svc
        from deep.task import TaskHandler
        from deep.push import PushService
        from deep.config.config_service import ConfigService
        from deep.config.tracepoint_config import TracepointConfigService
        from deep.grpc.grpc_service import GRPCService
        from deep.api.tracepoint.eventsnapshot import EventSnapshot
        from deep.api.tracepoint.tracepoint_config import TracePointConfig
        from deep.api.resource import Resource
        import deep.push as dpush

        cfg = ConfigService({"SERVICE_URL": "sim:1", "SERVICE_SECURE": "False"}, tracepoints=TracepointConfigService())
        grpc = GRPCService(cfg)
        grpc.start()
        th = TaskHandler()
        push = PushService(grpc, th)
        plan = {}
        for ops in scenario["threads"]:
            for o in ops:
                if "sid" in o:
                    plan["s%d" % o["sid"]] = o
        for o in scenario["post"]:
            plan["s%d" % o["sid"]] = o

        # per-snapshot behaviour of the service
        orig_handle = svc.handle

        def handle(channel, method, data, metadata):
            if method == fakegrpc.SEND:
                snap = svc.tp_pb2.Snapshot.FromString(data)
                o = plan.get(snap.tracepoint.ID)
                kk = kernel.active()
                hist["ran"].setdefault(snap.tracepoint.ID, []).append(("send", kk.me().name))
                if o is not None:
                    if o.get("delay"):
                        kk.fault("rpc_delay")
                        kk.sleep(o["delay"])
                    if o.get("send") == "error":
                        kk.fault("rpc_error")
                        svc.send_attempts.append((kk.now_ns, kk.me().name, snap.ID.hex()))
                        raise fakegrpc.FakeRpcError(fakegrpc._real_grpc.StatusCode.UNAVAILABLE)
            return orig_handle(channel, method, data, metadata)
        svc.handle = handle
        real_convert = dpush.convert_snapshot

        def convert_snapshot(snapshot):
            kk = kernel.active()
            tid = snapshot.tracepoint.id
            hist["convert"].setdefault(tid, []).append(kk.me().name if kk else "?")
            return real_convert(snapshot)
        dpush.convert_snapshot = convert_snapshot

        def mk_snapshot(o):
            tp = TracePointConfig("s%d" % o["sid"], "f.py", 1, {}, [], [])
            # an unconvertible snapshot: a negative timestamp cannot be encoded as fixed64
            snap = EventSnapshot(tp, k.now_ns if o["conv"] else -5, Resource.create({}), [], {})
            if not o["conv"]:
                k.fault("unconvertible")
            return snap

        def raw_task(o):
            kk = kernel.active()
            hist["ran"].setdefault("s%d" % o["sid"], []).append(("task", kk.me().name))
            if o.get("delay"):
                kk.sleep(o["delay"])
            if o.get("fail"):
                kk.fault("task_raise")
                raise (_RawFailBase if o.get("base") else _RawFail)("task %d" % o["sid"])

        orig_submit = th.submit_task

        tracer = None
        if scenario["knobs"].get("line_level"):
            src = seams.SRC
            tracer = linetrace.LineTracer(k, (os.path.join(src, "deep/task"), os.path.join(src, "deep/push")))
            tracer.install()

        def do_op(o, tname, bucket):
            if o["op"] == "sleep":
                k.sleep(o["s"])
                return
            if o["op"] == "flush":
                rec = {"thread": tname, "call": k.yields, "call_ns": k.now_ns}
                hist["flush"].append(rec)
                try:
                    th.flush()
                    rec["out"] = "ok"
                except kernel.SimKilled:
                    raise
                except BaseException as e:
                    rec["out"] = type(e).__name__
                rec["ret"] = k.yields
                rec["ret_ns"] = k.now_ns
                # which of the futures accepted before the call are not done at return
                rec["undone"] = [sid for sid, a in hist["accept"].items()
                                 if a.get("ret") is not None and a["ret"] <= rec["call"] and a.get("future") is not None
                                 and not a["future"].done()]
                return
            sid = "s%d" % o["sid"]
            a = {"thread": tname, "call": k.yields}
            bucket[sid] = a
            try:
                if o["op"] == "push":
                    snap = mk_snapshot(o)
                    push.push_snapshot(snap)
                    a["out"] = "ok"
                else:
                    a["future"] = th.submit_task(raw_task, o)
                    a["out"] = "ok"
            except kernel.SimKilled:
                raise
            except BaseException as e:
                a["out"] = type(e).__name__
            a["ret"] = k.yields

        # track futures by wrapping the public submit_task on the instance (PushService calls it through self)
        cur = {}
        done_ns = {}
        boxes = {}

        def tracking_submit(task, *args):
            box = {}

            def run(*a):
                # the step at which the task itself ended, taken on the worker (a done-callback added after the
                # hand-over returned can run late, on the submitting thread)
                try:
                    return task(*a)
                finally:
                    box["step"] = kernel.K.yields
            f = orig_submit(run, *args)
            me = kernel.active().me().name
            cur.setdefault(me, []).append(f)
            boxes[id(f)] = box
            f.add_done_callback(lambda _f: done_ns.__setitem__(id(_f), kernel.K.now_ns))
            return f
        th.submit_task = tracking_submit

        def app(ops, tname):
            for o in ops:
                n0 = len(cur.get(tname, []))
                do_op(o, tname, hist["accept"])
                if o["op"] in ("push", "task"):
                    fs = cur.get(tname, [])
                    a = hist["accept"]["s%d" % o["sid"]]
                    if len(fs) > n0 and a.get("future") is None:
                        a["future"] = fs[-1]

        ts = []
        for i, ops in enumerate(scenario["threads"]):
            t = shims.SimThread(target=app, args=(ops, "app%d" % i), name="app%d" % i)
            ts.append(t)
        for t in ts:
            t.start()
        for t in ts:
            t.join()
        # after close
        for o in scenario["post"]:
            n0 = len(cur.get("main", []))
            do_op(o, "main", hist["post"])
            fs = cur.get("main", [])
            if len(fs) > n0:
                hist["post"]["s%d" % o["sid"]]["future"] = fs[-1]
        k.sleep(40)
        k.settle()
        if tracer is not None:
            tracer.uninstall()
        dpush.convert_snapshot = real_convert
        fakegrpc.SERVICE = None

        # ---------------------------------------------------------------- oracle
        sends = {}
        for sid, evs in hist["ran"].items():
            for kind, tn in evs:
                if kind == "send":
                    sends.setdefault(sid, []).append(tn)
        allacc = dict(hist["accept"])
        allacc.update(hist["post"])
        for sid, a in sorted(allacc.items()):
            o = plan[sid]
            conv = hist["convert"].get(sid, [])
            ran = [x for x in hist["ran"].get(sid, []) if x[0] == "task"]
            if a.get("out") != "ok":
                # refused: must not have run at all
                if conv or ran:
                    viol.append(V("refused-but-ran", "%s raised %s but ran" % (sid, a.get("out"))))
                continue
            if o["op"] == "push":
                if len(conv) != 1:
                    viol.append(V("convert-count:%d%s" % (len(conv), ":after-close" if sid in hist["post"] else ""),
                                  "%s accepted by %s, converted %s" % (sid, a["thread"], conv)))
                exp = 1 if o["conv"] else 0
                got = sends.get(sid, [])
                if len(conv) == 1 and len(got) != exp:
                    viol.append(V("send-count:%d-expected-%d" % (len(got), exp), "%s sends %s" % (sid, got)))
                for tn in conv + got:
                    if tn == a["thread"] or not tn.startswith("pool"):
                        viol.append(V("delivery-on-app-thread", "%s handled on %s" % (sid, tn)))
            else:
                if len(ran) != 1:
                    viol.append(V("task-run-count:%d%s" % (len(ran), ":after-close" if sid in hist["post"] else ""),
                                  "%s ran %s" % (sid, ran)))
                for _, tn in ran:
                    if tn == a["thread"]:
                        viol.append(V("delivery-on-app-thread", "%s ran on %s" % (sid, tn)))
        for fl in hist["flush"]:
            # not demanded: a task slower than flush's own per-future wait (10 s) - only reachable through stalls
            slow = [sid for sid, a in hist["accept"].items() if a.get("future") is not None
                    and a.get("ret", 1 << 60) <= fl["call"]
                    and done_ns.get(id(a["future"]), 1 << 62) - fl["call_ns"] >= 9_500_000_000]
            if slow and (fl.get("out") == "TimeoutError" or (fl.get("out") == "ok" and fl.get("undone"))):
                k.probe("excused_slow_task")
                continue
            if fl.get("out") != "ok":
                viol.append(V("flush-raised:%s" % fl.get("out"), "flush in %s raised %s" % (fl["thread"], fl.get("out"))))
            elif fl.get("undone"):
                viol.append(V("flush-returned-early", "accepted before flush and unfinished at return: %s" % fl["undone"]))
            else:
                # a hand-over that OVERLAPS the flush is either accepted - then it counts as accepted before the close,
                # and the flush waits for it - or refused: accepted and still unfinished when the flush returned is neither
                late = [sid for sid, a in hist["accept"].items()
                        if a.get("out") == "ok" and a.get("future") is not None and a["call"] < fl["ret"] and a.get("ret", 0) > fl["call"]
                        and boxes.get(id(a["future"]), {}).get("step", 1 << 62) > fl["ret"]
                        and done_ns.get(id(a["future"]), 1 << 62) - fl["call_ns"] < 9_500_000_000]
                if late:
                    viol.append(V("accepted-during-flush-but-not-awaited", "%s handed over while flush ran, accepted, and "
                                  "unfinished when flush returned" % late))
        k.log("hist", sorted((sid, a.get("out")) for sid, a in allacc.items()),
              [(f["thread"], f.get("out")) for f in hist["flush"]])
        k.probe("flush_with_running_task", sum(1 for fl in hist["flush"] if any(
            a.get("future") is not None and a.get("ret", 1 << 60) <= fl["call"] for a in hist["accept"].values())))
        k.probe("accepted", sum(1 for a in allacc.values() if a.get("out") == "ok"))
        k.probe("refused_after_close", sum(1 for a in hist["post"].values() if a.get("out") != "ok"))

    k = common.run_in_kernel(ch, scenario["knobs"], main)
    nacc = sum(1 for a in hist["accept"].values() if a.get("out") == "ok")
    key = None
    if nacc and hist["flush"]:
        key = repr((scenario["threads"], scenario["post"], sorted((s, a.get("out")) for s, a in hist["accept"].items()),
                    k.order_sig.hexdigest()[:8]))
    return common.result(k, viol, key=key)

TEXT = ("Seeded exploration of submit/flush/close histories x line-level thread schedules x task faults against a "
        "history oracle (exactly-once conversion and send per accepted snapshot, off the submitting thread, failures "
        "contained, flush returns normally only after every previously accepted task finished, refusal after close "
        "is visible). Sampling, not proof: the right level because the property quantifies over schedules and fault "
        "placements that only a controlled scheduler can reach.")
NOTE = ("Trusts the kernel/shims and SimExecutor's faithfulness to ThreadPoolExecutor; pre-emption granularity is one "
        "line of deep/task and deep/push plus every lock/condition/clock seam; tasks slower than flush's own 10 s "
        "wait are not demanded.")
TECHNIQUE = "deterministic simulation: seeded schedules + fault injection, history oracle, ddmin replay"
