"""C16 - log tracepoints emit the template with every field evaluated in place.

Templates from a small grammar (literal text, doubled braces, 0-4 fields: locals, attribute/index/call expressions,
failing expressions) are rendered by an independent renderer on the recorder's reference frame and compared with what
the tracepoint logger received, with the ids it was given, and with the snapshot's log message and LOG watches.
"""
import random
import re

from simkit import common, shims
from simkit.common import V
from simkit.refmodel import RefLimiter, esc
from . import hitcommon

ID = "C16"
LEVEL = "exploration"
BUDGET = {"quick": (3000, 35), "thorough": (800_000, 540)}
RULE = ("template grammar (literal text incl. unicode and punctuation, '{{' / '}}', 0-4 fields naming locals, "
        "attribute / index / call expressions, expressions over host globals, failing expressions) x 2-8 hits with "
        "generated locals x log-only and collecting tracepoints x fire_count in {1,2,-1} x recording logger or the "
        "built-in PythonPlugin logger x (10%) a collecting tracepoint on the same line whose delivery is refused because another thread shuts the agent down during the event; non-trivial = at least one message with a field was checked; distinct = "
        "distinct (template, rows, mode) keys")
COMPONENTS = {"real": ["whole Deep agent", "string.Formatter based log processing", "PythonPlugin (logger arm)"],
              "stub": ["threads/clock/executor", "gRPC channel + DEEP service", "recording TracepointLogger"]}
ASSUMPTIONS = ["field text is free of the characters string.Formatter reserves (! : { })",
               "for a failing field any text containing the exception's message is accepted"]
TEXT = ("Seeded exploration over a template grammar against an independent renderer evaluated on the reference "
        "frame; checks message text, one message per permitted hit, id labelling, snapshot/log agreement.")
NOTE = "Trusts the 30-line independent renderer and the recorder's evaluation in the frame's scope."
TECHNIQUE = "deterministic simulation: template grammar vs independent renderer on the reference frame"

LITS = ("", " ", "value=", "hit ", " and ", "-> ", "é ü 中 ", "100% done; ", "a.b,c ", "[x] ", "(p) ", "#", "\t", "'q' \"d\" ")
FIELDS_OK = ("i", "val", "name", "flag", "person", "person.name", "person.age", "person.greet()", "data['k']",
             "data['l'][0]", "data", "G_HOST", "len(name)", "i + val", "name.upper()", "x if False else i",
             "BIG", "BIG[1]", "i * 1.5", "val / 4", "next(cnt)", "next(cnt)",
             # a ':' or '!' inside the expression belongs to the expression; nested scopes see the frame's locals
             "i != val", "data.get('k:q', 0)", "name[1:]", "'%s:%s' % (i, flag)", "{'a': i}['a']", "name[::2]",
             "sum(v * i for v in data['l'])", "any(v == i for v in data['l'])", "(lambda: i + 1)()",
             "sorted(data['l'], key=lambda v: -v * i)[:1]")
#: fields whose evaluation changes what the next evaluation yields: each occurrence is evaluated in its own place
IMPURE = ("next(cnt)",)
FIELDS_BAD = ("nosuch", "person.nope", "data['zz']", "1 / 0", "host_raise('kaboom')", "time_ns", "nosuch[1:]",
              "sum(v * nosuch for v in data['l'])",
              # the failure itself cannot be turned into text
              "host_raise_rude()", "G_TAB[G_BADNUM]", "x")


ANY = None


def wild_match(tokens, text):
    """Does text consist of the literal tokens in order, with anything (or nothing) where a token is ANY?  Linear."""
    chunks, gap = [""], [False]
    for t in tokens:
        if t is ANY:
            if chunks[-1] != "" or len(chunks) == 1:
                chunks.append("")
                gap.append(True)
            else:
                gap[-1] = True
        else:
            chunks[-1] += t
    # chunks[i] is preceded by a gap iff gap[i]; the first chunk is anchored at the start, the last at the end
    pos = 0
    for i, c in enumerate(chunks):
        last = i == len(chunks) - 1
        if not gap[i]:
            if not text.startswith(c, pos):
                return False
            pos += len(c)
        elif last:
            return len(text) - len(c) >= pos and text.endswith(c)
        else:
            j = text.find(c, pos)
            if j < 0:
                return False
            pos = j + len(c)
    return pos == len(text) if not gap[-1] or chunks[-1] != "" else True


def gen_template(r):
    parts = []
    for _ in range(r.randrange(1, 6)):
        k = r.random()
        if k < 0.4:
            parts.append(["lit", r.choice(LITS)])
        elif k < 0.5:
            parts.append(["lit", r.choice(("{", "}", "{}", "{x}"))])   # literal braces (doubled in the template)
        elif k < 0.85:
            parts.append(["field", r.choice(FIELDS_OK)])
        else:
            parts.append(["field", r.choice(FIELDS_BAD)])
    return parts


def template_text(parts):
    out = []
    for kind, t in parts:
        if kind == "lit":
            out.append(t.replace("{", "{{").replace("}", "}}"))
        else:
            # an expression that itself starts (ends) with a brace is set off by a space: '{{' is the escape for '{'
            out.append("{" + (" " if t.startswith("{") else "") + t + (" " if t.endswith("}") else "") + "}")
    return "".join(out)


def generate(seed, tier):
    r = random.Random(seed)
    sc = {"rows": hitcommon.gen_rows(r, r.randrange(2, 9)), "parts": gen_template(r),
          "collect": r.random() < 0.5, "fire_count": r.choice(("1", "2", "-1")),
          "logger": r.choice(("rec", "rec", "python")), "via": r.choice(("service", "register")),
          "knobs": common.draw_knobs(r, stall_p=0.0)}
    if r.random() < 0.08:
        # the agent is shut down and started again before hit number restart_at: the plugins are loaded afresh, the
        # messages of the second life go to the logger of the second life
        sc.update(logger="rec", restart_at=r.randrange(1, len(sc["rows"])))
    elif r.random() < 0.1:
        # a collecting tracepoint shares the line with the log-only one, and another thread shuts the agent down while
        # the event of hit number stop_at is being completed: the snapshot is refused, the message is not affected
        sc.update(collect=False, via="service", fire_count="-1", logger="rec", stop_at=r.randrange(0, len(sc["rows"])))
    return sc


def shrink_candidates(s):
    for cand in common.drop_one(s["parts"]):
        if cand:
            yield dict(s, parts=cand)
    for cand in common.drop_one(s["rows"]):
        if cand:
            yield dict(s, rows=cand)
    if s["collect"]:
        yield dict(s, collect=False)
    if s.get("stop_at") is not None:
        yield {k_: v for k_, v in s.items() if k_ != "stop_at"}
    if s.get("restart_at") is not None:
        yield {k_: v for k_, v in s.items() if k_ != "restart_at"}


def execute(s, ch):
    viol = []
    tmpl = template_text(s["parts"])
    fields = [t for kind, t in s["parts"] if kind == "field"]
    pure_fields = [t for t in fields if t not in IMPURE]     # the recorder must not evaluate the others itself

    def install(w, p, k):
        args = {"fire_count": s["fire_count"], "fire_period": "0", "log_msg": tmpl}
        if not s["collect"]:
            args["snapshot"] = "no_collect"
        if s.get("stop_at") is not None:
            snap_args = {"fire_count": "-1", "fire_period": "0"}
            w.service.set_config([w.service.make_tp("tpSNAP", p.basename, hitcommon.TP_LINE, snap_args, []),
                                  w.service.make_tp("tpLOG", p.basename, hitcommon.TP_LINE, args, [])], "h1")
            w.deep.poll.poll()
            orig_push = w.deep.push.push_snapshot

            def push_snapshot(snapshot):
                if state["hit"] == s["stop_at"] and not state["stopped"]:
                    # as if this thread were pre-empted right here and another thread ran Deep.shutdown() meanwhile
                    state["stopped"] = True
                    k.fault("shutdown_during_event")
                    t = shims.SimThread(target=w.deep.shutdown, name="stopper")
                    t.start()
                    t.join()
                return orig_push(snapshot)
            w.deep.push.push_snapshot = push_snapshot
        elif s["via"] == "service":
            w.service.set_config([w.service.make_tp("tpLOG", p.basename, hitcommon.TP_LINE, args, [])], "h1")
            w.deep.poll.poll()
        else:
            n0 = len(k.uuids)
            w.deep.register_tracepoint(p.basename, hitcommon.TP_LINE, args, [])
            me = k.me().name
            s["_reg_ids"] = [u for (t_, u) in k.uuids[n0:] if t_ == me]

    state = {"hit": None, "stopped": False}

    def mid(w, k, i):
        state["hit"] = i
        if s.get("restart_at") == i:
            k.fault("restart")
            w.deep.shutdown()
            w.start()
            common.wait_until(k, lambda: len(w.handler._tp_config) > 0, 60)
    plugins = [{"name": "RecLogger", "kinds": ["logger"], "order": -5}] if s["logger"] == "rec" else []
    import logging
    logging.getLogger("deep").setLevel(logging.INFO if s["logger"] == "python" else logging.WARNING)
    py_records = []

    class H(logging.Handler):
        def emit(self, record):
            if record.levelno == logging.INFO and str(record.msg).startswith("[deep] "):
                py_records.append(str(record.msg))
    hnd = H(level=logging.INFO)
    if s["logger"] == "python":
        logging.getLogger("deep").addHandler(hnd)
    try:
        k, hits, ctx = hitcommon.run_hits(s, ch, install, pure_fields, plugins=plugins, python_plugin=(s["logger"] == "python"), mid=mid,
                                          deep_log_level=logging.INFO if s["logger"] == "python" else None)
    finally:
        logging.getLogger("deep").removeHandler(hnd)
        logging.getLogger("deep").setLevel(logging.WARNING)
    if ctx.get("raised"):
        viol.append(V("trace-call-raised:%s" % ctx["raised"][0][5], str(ctx["raised"][0])))
    lim = RefLimiter(s["fire_count"], 0)
    w = ctx["world"]
    checked = 0
    tp_ids = {"tpLOG"} | set(s.get("_reg_ids", []))
    py_i = 0
    for h in hits:
        cap = h.cap
        if s.get("stop_at") is not None and h.index > s["stop_at"]:
            break       # the agent has been shut down
        exp = lim.hit(h.index + 1)
        logs = [e for e in h.effects if e[0] == "log"]
        snaps = [e for e in h.effects if e[0] == "snapshot" and e[1] != "tpSNAP"]
        if s["logger"] == "python":
            # PythonPlugin logs through deep.logging: one INFO record per message, in order
            n_msgs = None
        else:
            n_msgs = len(logs)
            if n_msgs != (1 if exp else 0):
                viol.append(V("message-count", "hit %d: %d messages, expected %d (fire_count %s)" % (
                    h.index, n_msgs, 1 if exp else 0, s["fire_count"])))
                continue
        if not exp:
            continue
        # ------------------------------------------------ independent rendering on the reference frame
        pat = ["[deep] "]
        plain = "[deep] "
        exact = True
        n_next = 0
        for kind, t in s["parts"]:
            if kind == "lit":
                pat.append(t)
                plain += t
            elif t == "next(cnt)":
                # the k-th occurrence in the message takes the k-th value of this hit's own iterator
                txt = str(h.index * 10 + n_next)
                n_next += 1
                pat.append(txt)
                plain += txt
            else:
                st, val = cap["exprs"][t]
                if st == "ok":
                    txt = val.text if val.text is not None else str(val.obj)
                    pat.append(txt)
                    plain += txt
                else:
                    exact = False
                    pat += [ANY, hitcommon.etext(val), ANY]
        if s["logger"] == "rec":
            msg, a_tp, a_ctx = logs[0][2]
        else:
            if py_i >= len(py_records):
                viol.append(V("message-count", "hit %d: PythonPlugin logged nothing" % h.index))
                continue
            line = py_records[py_i]
            py_i += 1
            m = re.match(r"(?s)(.*) ctx=(\S+) tracepoint=(\S+)\Z", line)
            if not m:
                viol.append(V("python-logger-format", repr(line[:200])))
                continue
            msg, a_ctx, a_tp = m.group(1), m.group(2), m.group(3)
        checked += 1
        if not wild_match(pat, msg):
            viol.append(V("message-text" + ("" if exact else ":with-failing-field"),
                          "template %r rendered %r, independent rendering %r" % (tmpl, msg, plain if exact else "".join("<anything>" if t is ANY else t for t in pat))))
        if not msg.startswith("[deep] "):
            viol.append(V("prefix-missing", repr(msg[:40])))
        # ------------------------------------------------ ids, each in its own place
        if a_tp not in tp_ids:
            where = "context-id" if a_tp in h.uuids else "something-else"
            viol.append(V("tracepoint-id-slot-holds-%s" % where, "logger got tp_id=%r ctx_id=%r; tracepoint ids %s; "
                          "context ids drawn in this event %s" % (a_tp, a_ctx, sorted(tp_ids), h.uuids)))
        if a_ctx not in h.uuids:
            where = "tracepoint-id" if a_ctx in tp_ids else "something-else"
            viol.append(V("context-id-slot-holds-%s" % where, "logger got tp_id=%r ctx_id=%r" % (a_tp, a_ctx)))
        # ------------------------------------------------ snapshot agreement
        if s["collect"]:
            if len(snaps) != 1:
                viol.append(V("collecting-log-tracepoint-no-snapshot", "hit %d: %d snapshots" % (h.index, len(snaps))))
                continue
            snap = hitcommon.wire_of(ctx, snaps[0][2])
            if snap is None:
                viol.append(V("not-delivered", "hit %d" % h.index))
                continue
            if snap.log_msg != msg and snap.log_msg != esc(msg):
                viol.append(V("snapshot-log-differs", "%r vs logged %r" % (snap.log_msg, msg)))
            lw = [w_.expression for w_ in snap.watches if w_.source == 1]
            if [x_.strip() for x_ in lw] != fields:   # (the space that sets a brace-led expression off is not part of it)
                viol.append(V("snapshot-log-watches", "fields %s, LOG watches %s" % (fields, lw)))
            ctx_attr = {kv.key: kv.value.string_value for kv in snap.attributes}.get("context")
            if ctx_attr != a_ctx and a_ctx in h.uuids:
                viol.append(V("context-id-differs-from-snapshot", "%r vs %r" % (a_ctx, ctx_attr)))
        elif snaps:
            viol.append(V("log-only-tracepoint-collected", "hit %d" % h.index))
    if w.sink.stale and s.get("restart_at") is not None:
        viol.append(V("message-went-to-a-logger-that-was-shut-down", "callbacks on plugin instances of an earlier life of "
                      "the agent: %s" % w.sink.stale[:3]))
    k.probe("messages_checked", checked)
    key = repr((tmpl, s["rows"], s["collect"], s["logger"])) if checked and fields else None
    seen, vs = set(), []
    for v in viol:
        if v["sig"] not in seen:
            seen.add(v["sig"])
            vs.append(v)
    return common.result(k, vs, key=key)
