"""C19 - configuration resolves with documented precedence and works from the environment.

Arm "parity" (the simulator's part): one whole-system scenario is run twice with the same seed - a documented setting
given in code, and the same setting given as its DEEP_<KEY> environment variable (text) - and everything the host and
the service can observe must be equal; for POLL_TIMER polling must stay alive on simulated time.
Arm "table": the precedence table (key x {code value, code callable, absent} x {environment set, unset}) in fresh
interpreters, and the app-frame rule (paths x include/exclude/app-root prefix sets) against an independent rule;
these are enumerations of finite tables of pure functions, run inside the same check.
"""
import json
import os
import random
import subprocess
import sys

from simkit import common, hostgen, host, world, shims, kernel, seams
from simkit.common import V
from simkit.refmodel import app_frame_rule

ID = "C19"
LEVEL = "exploration"
BUDGET = {"quick": (600, 35), "thorough": (100_000, 540)}
RULE = ("arm parity: documented setting in {POLL_TIMER, SERVICE_URL, SERVICE_SECURE, SERVICE_AUTH_PROVIDER, "
        "IN_APP_INCLUDE, IN_APP_EXCLUDE, APP_ROOT, LOGGING_CONF} x generated value x whole-system scenario (start through "
        "deep.start, registered tracepoint hit from nested calls, 3.5 poll intervals, shutdown) run with the value "
        "in code and as DEEP_<KEY> text; arm table (seed index 0 of a batch): 10 keys x 7 code forms (value, callable, absent, 0, '', [], False) x 2 environment "
        "states in fresh interpreters (ENUMERATED) and 13 paths (incl. prefixes recurring later in the path) x 24 prefix sets for the app-frame rule (ENUMERATED); "
        "non-trivial = a parity pair whose scenario delivered at least one snapshot and three polls, or a table row; "
        "distinct = distinct (key, value) pairs / table rows")
COMPONENTS = {"real": ["deep.start(), ConfigService, deep.config (re-imported per environment), whole agent"],
              "stub": ["threads/clock/executor", "gRPC channel + DEEP service"]}
ASSUMPTIONS = ["code-side values have the documented default's own type (POLL_TIMER numeric, the rest text / lists)",
               "for IN_APP_EXCLUDE the interpreter prefix that the environment form appends by design is ignored: only "
               "frames of host and simulator files are compared"]
TEXT = ("Seeded same-seed differential runs code-vs-environment with poll liveness on the simulated clock, plus "
        "exhaustive enumeration of the two finite tables the statement defines.")
NOTE = "deep.config is reloaded in-process per environment (its defaults are read at import); the table arm uses fresh interpreters."
TECHNIQUE = "deterministic simulation: same-seed differential (code vs environment) + table enumeration"

DATA = os.path.join(os.path.dirname(os.path.dirname(os.path.abspath(__file__))), "data")
SRC = '''
def inner(a):
    b = a + 1
    return b

def outer(a):
    return inner(a) * 2

def tmain(out):
    out.append(outer(1))
'''
PARITY = (
    ("POLL_TIMER", 5, "5"), ("POLL_TIMER", 2, "2"), ("POLL_TIMER", 2.5, "2.5"), ("POLL_TIMER", 30, "30"),
    ("SERVICE_URL", "other:9999", "other:9999"), ("SERVICE_SECURE", "True", "True"), ("SERVICE_SECURE", "false", "false"),
    ("SERVICE_SECURE", False, "False"), ("SERVICE_SECURE", True, "True"),      # in code the switch may be a bool
    ("SERVICE_AUTH_PROVIDER", "deep.api.auth.BasicAuthProvider", "deep.api.auth.BasicAuthProvider"),
    ("IN_APP_INCLUDE", ["/simapp/sub", "/verif/checks"], "/simapp/sub,/verif/checks"),
    ("IN_APP_INCLUDE", ["/verif"], "/verif"),
    ("IN_APP_EXCLUDE", ["/simapp/simenv", "/nowhere"], "/simapp/simenv,/nowhere"),
    ("IN_APP_EXCLUDE", ["/simapp"], "/simapp"), ("IN_APP_EXCLUDE", ["/verif/simkit", "/verif/checks", "/x"], "/verif/simkit,/verif/checks,/x"),
    ("APP_ROOT", "/simapp", "/simapp"), ("APP_ROOT", "/verif", "/verif"),
    ("LOGGING_CONF", os.path.join(DATA, "quiet_logging_a.conf"), os.path.join(DATA, "quiet_logging_a.conf")),
    ("LOGGING_CONF", os.path.join(DATA, "quiet_logging_b.conf"), os.path.join(DATA, "quiet_logging_b.conf")),
)


def generate(seed, tier):
    r = random.Random(seed)
    if seed % 1_000_000 == 0:
        return {"arm": "table", "knobs": {}}
    i = (seed % 1_000_000 - 1) % len(PARITY) if seed % 1_000_000 <= 2 * len(PARITY) else r.randrange(len(PARITY))
    # both: the value is given in code AND the environment variable carries another one - code wins, nothing changes
    return {"arm": "parity", "case": i, "both": r.random() < 0.4, "knobs": common.draw_knobs(r, stall_p=0.0)}


def execute(s, ch):
    return _table(s, ch) if s["arm"] == "table" else _parity(s, ch)


# ---------------------------------------------------------------------------------------------------- parity
def _observe(s, ch, key, value, how, env_noise=None):
    obs = {}
    import importlib
    import logging
    env_key = "DEEP_" + key
    saved_env = {k_: os.environ.get(k_) for k_ in (env_key, "DEEP_SERVICE_USERNAME", "DEEP_SERVICE_PASSWORD", "DEEP_LOGGING_CONF")}
    saved_handlers = (list(logging.getLogger().handlers), list(logging.getLogger("deep").handlers),
                      logging.getLogger("deep").level, logging.getLogger("deep").propagate, logging.getLogger().level)
    import deep.config as dcfg
    custom = {"SERVICE_URL": "sim:1", "SERVICE_SECURE": "False"}
    quiet = os.path.join(DATA, "quiet_logging_a.conf")
    if key != "LOGGING_CONF":
        custom["LOGGING_CONF"] = quiet
    if key == "SERVICE_AUTH_PROVIDER":
        custom["SERVICE_USERNAME"] = "bob"
        custom["SERVICE_PASSWORD"] = "s3cret"
    if how == "code":
        custom[key] = value
        custom.setdefault("APP_ROOT", "/simapp")
        if env_noise is not None:
            os.environ[env_key] = env_noise
    else:
        os.environ[env_key] = value
        custom.pop(key, None)
        if key != "APP_ROOT":
            custom.setdefault("APP_ROOT", "/simapp")
    importlib.reload(dcfg)

    def main(k):
        import deep as deep_pkg
        p = hostgen.start_program("simenv", prelude=False)
        for ln in SRC.strip("\n").split("\n"):
            p.lines.append(ln)
        p.finish()
        w = world.World(k, cfg={}, python_plugin=True)     # prepares service, sink, log capture; its Deep is not used
        custom.update(world.BUILTIN_OFF)
        try:
            d = deep_pkg.start(dict(custom))
        except kernel.SimKilled:
            raise
        except BaseException as e:  # noqa
            obs["start"] = "%s: %s" % (type(e).__name__, e)
            return
        obs["start"] = "ok"
        obs["deep_logger"] = (logging.getLogger("deep").level, logging.getLogger().level)
        k.settle()
        try:
            d.register_tracepoint(p.basename, 2, {"fire_count": "-1", "fire_period": "0", "frame_type": "single_frame"}, [])
        except BaseException as e:  # noqa
            if isinstance(e, kernel.SimKilled):
                raise
            obs["register"] = repr(e)
        k.settle()
        g = p.load()
        out = []
        t = shims.SimThread(target=lambda: g["tmain"](out), name="app0")
        t.start()
        t.join()
        t0 = k.now_ns
        iv = float(value) if key == "POLL_TIMER" else 10.0
        k.sleep(3.5 * iv)
        k.settle()
        svc = w.service
        obs["out"] = out
        obs["polls_in_window"] = len([p_ for p_ in svc.polls if p_[0] > t0])
        obs["poll_gaps"] = [round((b[0] - a[0]) / 1e9, 1) for a, b in zip(svc.polls, svc.polls[1:])][:6]
        obs["channel"] = [(c.target, c.secure) for c in svc.channels]
        obs["metadata"] = sorted({repr(p_[3]) for p_ in svc.polls})
        obs["timer_alive"] = any(t_.name == "Tracepoint Long Poll" and k.alive(t_) for t_ in k.threads)
        frames = []
        for (_, _, snap, md) in svc.snapshots:
            for fr in snap.frames:
                if fr.file_name.startswith(("/simapp", "/verif")):
                    frames.append((fr.file_name, fr.short_path, fr.app_frame))
        obs["frames"] = frames
        obs["snapshots"] = len(svc.snapshots)
        obs["errors"] = [(r_[1], r_[2]) for r_ in w.logs.records if r_[0] in ("ERROR", "CRITICAL")][:5]
        try:
            d.shutdown()
        except BaseException as e:  # noqa
            if isinstance(e, kernel.SimKilled):
                raise
            obs["shutdown"] = repr(e)
        w.close()

    try:
        k = common.run_in_kernel(ch, s["knobs"], main)
    finally:
        for k_, v_ in saved_env.items():
            if v_ is None:
                os.environ.pop(k_, None)
            else:
                os.environ[k_] = v_
        importlib.reload(dcfg)
        root, dl = logging.getLogger(), logging.getLogger("deep")
        root.handlers[:] = saved_handlers[0]
        dl.handlers[:] = saved_handlers[1]
        dl.setLevel(saved_handlers[2])
        dl.propagate = saved_handlers[3]
        root.setLevel(saved_handlers[4])
    return k, obs


def _parity(s, ch):
    key, code_v, env_v = PARITY[s["case"]]
    viol = []
    k1, a = _observe(s, ch, key, code_v, "code")
    ch2 = kernel.Choices(ch.seed, None)
    k2, b = _observe(s, ch2, key, env_v, "env")
    tag = "%s=%s" % (key, env_v if len(str(env_v)) < 40 else os.path.basename(str(env_v)))
    for name, obs in (("code", a), ("env", b)):
        if obs.get("start") != "ok":
            viol.append(V("start-fails:%s:%s" % (name, tag), str(obs.get("start"))))
    if not viol:
        iv_polls = 3
        for name, obs in (("code", a), ("env", b)):
            if obs["polls_in_window"] < iv_polls or not obs["timer_alive"]:
                viol.append(V("polling-dies:%s:%s" % (name, tag), "%d polls in 3.5 intervals, timer alive %s, errors %s" % (
                    obs["polls_in_window"], obs["timer_alive"], obs["errors"])))
        for field in ("out", "polls_in_window", "poll_gaps", "channel", "metadata", "frames", "snapshots", "deep_logger"):
            if a.get(field) != b.get(field):
                viol.append(V("code-and-environment-differ:%s:%s" % (field, tag), "in code %r; from environment %r; errors "
                              "(env run) %s" % (a.get(field), b.get(field), b.get("errors"))))
    k3 = None
    if s.get("both") and not viol:
        others = [e_ for (k_, _c, e_) in PARITY if k_ == key and e_ != env_v] or ["elsewhere:1"]
        noise = others[s["case"] % len(others)]
        k3, c = _observe(s, kernel.Choices(ch.seed, None), key, code_v, "code", env_noise=noise)
        for field in ("start", "out", "polls_in_window", "poll_gaps", "channel", "metadata", "frames", "snapshots", "deep_logger"):
            if a.get(field) != c.get(field):
                viol.append(V("environment-overrides-code:%s:%s" % (field, tag), "given in code alone %r; with DEEP_%s=%r "
                              "set as well %r; errors %s" % (a.get(field), key, noise, c.get(field), c.get("errors"))))
    res = common.result(k2, viol, key=repr((key, env_v, bool(k3))) if (a.get("snapshots") and a.get("polls_in_window", 0) >= 3) else None)
    res["digest"] = k1.digest()[:32] + k2.digest()[:32]
    res["sim_ns"] += k1.sim_elapsed_ns + (k3.sim_elapsed_ns if k3 else 0)
    res["steps"] += k1.yields + (k3.yields if k3 else 0)
    if k3:
        res["digest"] = res["digest"][:48] + k3.digest()[:16]
    return res


# ---------------------------------------------------------------------------------------------------- tables
TABLE_PROG = r'''
import json, os, sys
sys.path.insert(0, %(src)r)
from deep.config.config_service import ConfigService
keys = %(keys)r
out = {}
for key in keys:
    row = {}
    for form in ("value", "callable", "absent", "zero", "empty", "emptylist", "false"):
        custom = {}
        if form == "value":
            custom[key] = "CODE-" + key
        elif form == "callable":
            custom[key] = (lambda key=key: "CALLED-" + key)
        elif form == "zero":
            custom[key] = 0
        elif form == "empty":
            custom[key] = ""
        elif form == "emptylist":
            custom[key] = []
        elif form == "false":
            custom[key] = False
        try:
            v = getattr(ConfigService(custom), key)
            if callable(v):
                v = "<callable>"
            row[form] = v if isinstance(v, (str, int, float, type(None), list)) else repr(v)
        except BaseException as e:
            row[form] = "RAISED %%s" %% type(e).__name__
    out[key] = row
print(json.dumps(out))
'''
DOC_KEYS = {"SERVICE_URL": "deep:43315", "SERVICE_SECURE": "True", "LOGGING_CONF": None, "POLL_TIMER": 10,
            "SERVICE_AUTH_PROVIDER": None}
FUNC_KEYS = ("IN_APP_INCLUDE", "IN_APP_EXCLUDE")
UNDOC_KEYS = ("MY_CUSTOM_KEY", "SERVICE_USERNAME")


def _table(s, ch):
    viol = []
    rows = 0
    keys = list(DOC_KEYS) + list(FUNC_KEYS) + ["APP_ROOT"] + list(UNDOC_KEYS)
    for env_set in (False, True):
        env = {k_: v_ for k_, v_ in os.environ.items() if not k_.startswith("DEEP_")}
        if env_set:
            for key in keys:
                env["DEEP_" + key] = "ENV-" + key
        prog = TABLE_PROG % {"src": seams.SRC, "keys": keys}
        out = subprocess.run([sys.executable, "-c", prog], env=env, capture_output=True, text=True, timeout=120)
        try:
            table = json.loads(out.stdout.strip().splitlines()[-1])
        except (ValueError, IndexError):
            viol.append(V("table-interpreter-failed", out.stderr[-400:]))
            continue
        for key in keys:
            for form in ("value", "callable", "absent", "zero", "empty", "emptylist", "false"):
                rows += 1
                got = table[key][form]
                if form == "value":
                    want = "CODE-" + key
                elif form == "callable":
                    want = "CALLED-" + key
                elif form in ("zero", "empty", "emptylist", "false"):
                    # a value given in code wins, also when it is falsy (only "not given" falls through)
                    want = {"zero": 0, "empty": "", "emptylist": [], "false": False}[form]
                elif key in DOC_KEYS:
                    want = ("ENV-" + key) if env_set else DOC_KEYS[key]
                elif key == "APP_ROOT":
                    want = ""            # calculated by deep.start(); the plain default is empty
                elif key in FUNC_KEYS:
                    want = None          # checked by the parity arm (list semantics)
                    if not isinstance(got, list):
                        viol.append(V("precedence:%s:%s:%s" % (key, form, "env" if env_set else "noenv"), "got %r" % (got,)))
                    continue
                else:
                    want = ("ENV-" + key) if env_set else None
                if got != want:
                    viol.append(V("precedence:%s:%s:%s" % (key, form, "env" if env_set else "noenv"),
                                  "ConfigService(%s).%s = %r, rule says %r" % (form, key, got, want)))
    # ---- app-frame rule, enumerated
    seams.install()
    from deep.config.config_service import ConfigService
    from deep.config.tracepoint_config import TracepointConfigService
    from deep.processor.frame_collector import FrameCollector

    class _Src:
        """The collector's view of the configuration (the short path is computed by the collector)."""

        def __init__(self, cfg_):
            self.cfg = cfg_

        def is_app_frame(self, filename):
            return self.cfg.is_app_frame(filename)
    paths = ("/app/src/main.py", "/app/src/lib/util.py", "/app/vendor/x.py", "/appendix/y.py", "/usr/lib/python3/os.py",
             "/app", "", "relative/file.py", "/app/src/lib/../evil.py", "/app/src/app/main.py", "/app/vendor/app/vendor/z.py",
             "/usr/lib/python3/usr/lib/six.py", "/appendix/app/appendix/q.py")
    sets = []
    for root in ("/app", "/app/", "", "/nowhere"):
        for inc, exc in (([], []), (["/usr/lib"], []), ([], ["/app/vendor"]), (["/app/vendor/x"], ["/app/vendor"]),
                         (["/app/src"], ["/app/src/lib"]), (["/appendix", "/app"], ["/app/src", "/a"])):
            sets.append((root, inc, exc))
    for root, inc, exc in sets[:12] + sets[12:]:
        cfg = ConfigService({"APP_ROOT": root, "IN_APP_INCLUDE": list(inc), "IN_APP_EXCLUDE": list(exc)},
                            tracepoints=TracepointConfigService())
        for path in paths:
            rows += 1
            try:
                app, match = cfg.is_app_frame(path)
                short, app2 = FrameCollector(_Src(cfg), None).parse_short_name(path)
                if bool(app2) != bool(app):
                    viol.append(V("app-frame-flag", "collector and configuration disagree for %r" % path))
            except BaseException as e:  # noqa
                viol.append(V("app-frame-rule-raised", "%r %r: %r" % (path, (root, inc, exc), e)))
                continue
            wapp, wshort = app_frame_rule(path, root, inc, exc)
            if bool(app) != wapp:
                viol.append(V("app-frame-flag", "%r with root=%r include=%r exclude=%r: %s, rule %s" % (path, root, inc, exc, app, wapp)))
            elif short != wshort:
                viol.append(V("short-path", "%r with root=%r include=%r exclude=%r: %r, rule %r" % (path, root, inc, exc, short, wshort)))
    seen, vs = set(), []
    for v in viol:
        if v["sig"] not in seen:
            seen.add(v["sig"])
            vs.append(v)
    return {"violations": vs, "faults": {}, "probes": {"table_rows": rows}, "sim_ns": 0, "steps": 0,
            "digest": "table-%d-%d" % (rows, len(vs)), "key": "table", "order": "", "sub": rows}
