"""C14 - lifecycle: hooks installed once, restored exactly; shutdown always completes.

start / start-again / shutdown / shutdown-again histories with pre-existing sys and threading trace functions, tracing
enabled or disabled (NO_TRACE), and faults during shutdown: pending sends failing or slow, poll RPC errors, plugins
whose shutdown raises, application threads still running through tracepoints.
"""
import random
import sys
import threading as _rt

from simkit import common, hostgen, host, world, shims, kernel
from simkit.common import V

ID = "C14"
LEVEL = "exploration"
BUDGET = {"quick": (2500, 35), "thorough": (600_000, 540)}
RULE = ("lifecycle histories: pre-set sys/threading trace functions in {none, recording tracer} x NO_TRACE in {unset, "
        "True} x start [start] [hits] shutdown [shutdown] x faults during shutdown (0-3 pending sends failing or "
        "delayed 0-8 s, poll errors, a poll in flight for 3-25 s, 0-2 of 3 plugins raising in shutdown, 0-2 application threads still hitting "
        "tracepoints) x seeded schedules; non-trivial = a shutdown with at least one fault or a pre-existing hook; "
        "distinct = distinct scenarios x thread order")
COMPONENTS = {"real": ["whole Deep agent incl. Deep.start/shutdown, TriggerHandler.start/shutdown, LongPoll, RepeatedTimer, "
                       "TaskHandler.flush, plugin loader"],
              "stub": ["threads/clock/executor", "sys.settrace/threading.settrace seam (wrapping, not replacing)",
                       "gRPC channel + DEEP service", "recording plugins"]}
ASSUMPTIONS = [
               "plugin failures are Exception subclasses, or the agent's own refusal (IllegalStateException)"]
TEXT = ("Seeded exploration of lifecycle histories with fault injection at shutdown; hook equality is observed on the "
        "real sys/threading hooks, liveness of the poll timer on simulated time, and 'no further actions' through "
        "hits from the main thread and from threads that were already running.")
NOTE = "The trace seam wraps the agent's function; equality is checked on the unwrapped function objects."
TECHNIQUE = "deterministic simulation: lifecycle histories + shutdown fault injection, hook/timer/effect observation"

SRC = '''
def hit(i, pause):
    x = i
    pause()
    return x

def looper(n, pause, out):
    for i in range(n):
        out.append(hit(i, pause))
'''


def generate(seed, tier):
    r = random.Random(seed)
    if r.random() < 0.05:
        # two agents in one process, one after the other, each built the way deep.start() builds them
        return {"arm": "two-agents", "no_trace": r.random() < 0.3, "knobs": common.draw_knobs(r, stall_p=0.0)}
    s = _generate(r)
    # how a plugin's shutdown fails: an error of its own, or the agent's refusal of something it still wanted to do
    s["plugin_shutdown_exc"] = r.choice(("Exception", "Exception", "Refused"))
    # start / shutdown / start / shutdown: the sequence goes on after the first shutdown
    s["restart"] = r.random() < 0.25
    if r.random() < 0.08:
        # a poll answer that arrives while shutdown is draining deliveries which outlast the drain's patience: whatever
        # that answer sets in motion must not take effect after shutdown has returned
        s.update(kind="snapshot", poll_in_flight=r.choice((3.0, 15.0)), poll_errors=False,
                 pending=["stuck", "stuck"] + [r.choice(("ok", "error"))] * r.randrange(0, 2))
    return s


def _generate(r):
    form = r.choice((None, None, None, "True", "true", "1", "False", "false", "0", False))
    return {"pre_sys": r.random() < 0.4, "pre_thread": r.random() < 0.4,
            "no_trace": (r.random() < 0.3) if form is None else form in ("True", "true", "1"), "no_trace_form": form,
            "start_twice": r.random() < 0.3, "shutdown_twice": r.random() < 0.3,
            "hits_before": r.randrange(0, 4), "pending": [r.choice(("ok", "error", "slow", "stuck")) for _ in range(r.randrange(0, 4))],
            "poll_errors": r.random() < 0.3, "plugin_shutdown_raises": sorted(r.sample((0, 1, 2), r.choice((0, 0, 1, 2)))),
            "bg_threads": r.choice((0, 0, 1, 2)), "kind": r.choice(("snapshot", "log", "metric", "span")),
            "poll_in_flight": r.choice((None, None, 3.0, 15.0, 25.0)),
            "knobs": common.draw_knobs(r, stall_p=0.0)}


def shrink_candidates(s):
    if s.get("arm") == "two-agents":
        return
    if s.get("restart"):
        yield dict(s, restart=False)
    for key, simple in (("pre_sys", False), ("pre_thread", False), ("start_twice", False), ("shutdown_twice", False),
                        ("poll_errors", False), ("bg_threads", 0), ("hits_before", 0), ("plugin_shutdown_raises", []),
                        ("pending", []), ("poll_in_flight", None)):
        if s[key] != simple:
            yield dict(s, **{key: simple})


def _two_agents(s, ch):
    viol = []

    def main(k):
        from deep.config.config_service import ConfigService
        from deep.api.deep import Deep
        w = world.World(k, cfg={"NO_TRACE": True} if s["no_trace"] else {}, python_plugin=False)   # service, sink, seams
        svc = w.service
        svc.set_config([svc.make_tp("t1", "nowhere.py", 1, {}, [])], "h-one")
        want_sys, want_thr = sys.gettrace(), _rt.gettrace()
        first_hash = []
        for n in (1, 2):
            polls0 = len(svc.polls)
            agent = Deep(ConfigService(dict(w.custom)))
            try:
                agent.start()
            except kernel.SimKilled:
                raise
            except BaseException as e:  # noqa
                viol.append(V("start-raised:%s:agent-%d" % (type(e).__name__, n), repr(e)))
                break
            k.settle()
            mine = svc.polls[polls0:]
            first_hash.append(mine[0][2] if mine else None)
            installed = len(agent.trigger_handler._tp_config)
            if n == 2 and (first_hash[-1] not in ("", None) or installed != 1):
                viol.append(V("second-agent-inherits-the-first-ones-configuration-state", "its first poll reported hash %r "
                              "(a new agent has none), it has %d tracepoints installed (the service has 1)" % (
                                  first_hash[-1], installed)))
            try:
                agent.shutdown()
            except kernel.SimKilled:
                raise
            except BaseException as e:  # noqa
                viol.append(V("shutdown-raised:%s:agent-%d" % (type(e).__name__, n), repr(e)))
            hs, ht = shims.TraceSeam.unwrap(sys.gettrace()), shims.TraceSeam.unwrap(_rt.gettrace())
            if hs is not shims.TraceSeam.unwrap(want_sys) or ht is not shims.TraceSeam.unwrap(want_thr):
                viol.append(V("hooks-not-restored:agent-%d" % n, "%r %r" % (hs, ht)))
            k.settle()
        k.fault("second_agent_in_process")
        sys.settrace(None)
        _rt.settrace(None)
        w.close()

    k = common.run_in_kernel(ch, s["knobs"], main)
    return common.result(k, viol, key=repr(("two-agents", s["no_trace"], k.order_sig.hexdigest()[:6])))


def execute(s, ch):
    if s.get("arm") == "two-agents":
        return _two_agents(s, ch)
    viol = []
    info = {"nontrivial": False}

    def main(k):
        from deep.api.tracepoint.trigger import build_trigger
        from deep.api.tracepoint.tracepoint_config import MetricDefinition
        p = hostgen.start_program("simlife", prelude=False)
        for ln in SRC.strip("\n").split("\n"):
            p.lines.append(ln)
        p.finish()
        seen_prev = {"sys": 0, "thr": 0}

        def prev_sys(frame, event, arg):
            seen_prev["sys"] += 1
            return None

        def prev_thr(frame, event, arg):
            seen_prev["thr"] += 1
            return None
        want_sys = prev_sys if s["pre_sys"] else None
        want_thr = prev_thr if s["pre_thread"] else None
        sys.settrace(want_sys)
        _rt.settrace(want_thr)
        plugins = [{"name": "LifeP%d" % i, "kinds": ["logger", "metric", "span"] if i == 0 else ["decorator"]}
                   for i in range(3)]
        cfg = {"NO_TRACE": True} if s["no_trace"] else {}
        if s.get("no_trace_form") is not None:
            # the switch written as text (as it arrives from DEEP_NO_TRACE) or as a bool, on or off
            cfg = {"NO_TRACE": s["no_trace_form"]}
        w = world.World(k, cfg=cfg, plugins=plugins, python_plugin=False)
        # World.__init__ resets the hooks of the process: set the pre-existing ones again, as the application would
        sys.settrace(want_sys)
        _rt.settrace(want_thr)
        for i in s["plugin_shutdown_raises"]:
            w.sink.faults.setdefault("LifeP%d" % i, {})["shutdown"] = "all"
            w.sink.faults_exc["LifeP%d" % i] = s.get("plugin_shutdown_exc", "Exception")
        in_flight = {"v": False}
        if s.get("poll_in_flight"):
            # a slow service: the timer's first poll takes poll_in_flight seconds and then publishes a new configuration
            def slow(idx):
                if idx == 1:
                    in_flight["v"] = True
                    w.service.set_config([w.service.make_tp("late", "nowhere.py", 1, {}, [])], "h-late")
                    return {"delay": s["poll_in_flight"]}
                return None
            w.service.poll_faults = slow
        elif s["poll_errors"]:
            w.service.poll_faults = lambda idx: {"kind": "error"} if idx >= 1 else None
        slow = {"n": 0}

        def send_faults(idx):
            kinds = s["pending"]
            if idx < len(kinds):
                if kinds[idx] == "error":
                    return {"kind": "error"}
                if kinds[idx] == "slow":
                    return {"delay": 8.0}
                if kinds[idx] == "stuck":
                    return {"delay": 45.0}     # far longer than the drain is prepared to wait for its deliveries
            return None
        w.service.send_faults = send_faults

        def hooks():
            return shims.TraceSeam.unwrap(sys.gettrace()), shims.TraceSeam.unwrap(_rt.gettrace())

        def check_hooks(when, expect_agent):
            hs, ht = hooks()
            if expect_agent:
                if hs != w.handler.trace_call or ht != w.handler.trace_call:
                    viol.append(V("hooks-not-installed:%s" % when, "sys %r threading %r" % (hs, ht)))
            else:
                if hs is not want_sys or ht is not want_thr:
                    which = ("sys" if hs is not want_sys else "") + ("+threading" if ht is not want_thr else "")
                    viol.append(V("hooks-not-restored:%s:%s%s" % (when, which.strip("+"), ":no_trace" if s["no_trace"] else ""),
                                  "sys hook %r (wanted %r), threading hook %r (wanted %r)" % (hs, want_sys, ht, want_thr)))
        # ------------------------------------------------ start
        try:
            w.start()
        except kernel.SimKilled:
            raise
        except BaseException as e:  # noqa
            viol.append(V("start-raised:%s" % type(e).__name__, repr(e)))
            return
        k.settle()
        check_hooks("after-start", not s["no_trace"])
        timers0 = [t for t in k.threads if t.name == "Tracepoint Long Poll" and k.alive(t)]
        polls0 = len(w.service.polls)
        if s["start_twice"]:
            w.deep.start()
            k.settle()
            timers1 = [t for t in k.threads if t.name == "Tracepoint Long Poll" and k.alive(t)]
            if len(timers1) != len(timers0) or len(w.service.polls) != polls0:
                viol.append(V("second-start-did-something", "timers %d->%d polls %d->%d" % (
                    len(timers0), len(timers1), polls0, len(w.service.polls))))
            check_hooks("after-second-start", not s["no_trace"])
        args = {"fire_count": "-1", "fire_period": "0"}
        metrics = []
        if s["kind"] == "log":
            args.update(log_msg="life {i}", snapshot="no_collect")
        elif s["kind"] == "metric":
            args.update(snapshot="no_collect")
            metrics = [MetricDefinition("m_life", "COUNTER")]
        elif s["kind"] == "span":
            # a method span: open from the entry of hit() to its return, i.e. across the pause inside it
            args.update(span="method", method_name="hit", snapshot="no_collect")
        w.handler.new_config([build_trigger("tpL", p.basename, 2, args, [], metrics)])
        g = p.load()
        # background application threads that keep running through the tracepoint while and after we shut down
        stop = {"v": False}
        bg_outs = []
        bgs = []
        for bi in range(s["bg_threads"]):
            out = []
            bg_outs.append(out)

            def pause():
                k.sleep(0.7)
            t = shims.SimThread(target=lambda out=out, pause=pause: g["looper"](60, pause, out), name="bg%d" % bi)
            bgs.append(t)
            t.start()
        # hits from the main thread (with pending, failing or slow deliveries when the action is a snapshot)
        out_main = []
        n_hits = max(s["hits_before"], len(s["pending"]) if s["kind"] == "snapshot" else 0)
        g["looper"](n_hits, lambda: None, out_main)
        k.sleep(0.1)
        effects_before = (len(w.pushed), len([c for c in w.sink.calls if c[2] in ("log_tracepoint", "counter", "create_span")]))
        if not s["no_trace"] and n_hits and effects_before == (0, 0) and not bgs:
            viol.append(V("harness-no-effect-before-shutdown", str(effects_before)))
        if s.get("poll_in_flight"):
            # shut down while the timer's poll is on the wire
            k.block_until(lambda: in_flight["v"], k.now_ns + 12 * 10**9, why="await-poll-in-flight")
            k.sleep(0.2)
        hash_at_shutdown = None
        # ------------------------------------------------ shutdown (with faults in flight)
        try:
            w.deep.shutdown()
        except kernel.SimKilled:
            raise
        except BaseException as e:  # noqa
            viol.append(V("shutdown-raised:%s" % type(e).__name__, "%r (plugins raising in shutdown %s, pending %s)" % (
                e, s["plugin_shutdown_raises"], s["pending"])))
        shutdown_done_ns = k.now_ns
        check_hooks("after-shutdown", False)
        alive_now = [t.name for t in k.threads if t.name == "Tracepoint Long Poll" and k.alive(t)]
        if alive_now:
            viol.append(V("shutdown-returned-while-poll-thread-alive", "poll in flight for %ss; threads %s" % (
                s.get("poll_in_flight"), alive_now)))
        mark_sends = len(w.service.send_attempts)
        hash_at_shutdown = w.config.tracepoints.current_hash
        installed_at_shutdown = [id(t_) for t_ in w.handler._tp_config]
        if w.deep.started:
            viol.append(V("still-started-after-shutdown", ""))
        if s["shutdown_twice"]:
            try:
                w.deep.shutdown()
            except kernel.SimKilled:
                raise
            except BaseException as e:  # noqa
                viol.append(V("second-shutdown-raised:%s" % type(e).__name__, repr(e)))
            check_hooks("after-second-shutdown", False)
        shut_calls = {}
        for c in w.sink.calls:
            if c[2] == "shutdown":
                shut_calls[c[1]] = shut_calls.get(c[1], 0) + 1
        for i in range(3):
            n = shut_calls.get("LifeP%d" % i, 0)
            if n != 1:
                viol.append(V("plugin-shutdown-called-%d-times" % n, "LifeP%d; raising plugins %s; calls %s" % (
                    i, s["plugin_shutdown_raises"], shut_calls)))
        # ------------------------------------------------ afterwards: no further actions, no polls, timer dead
        k.settle()
        mark_p = len(w.pushed)
        mark_s = len(w.sink.calls)
        mark_polls = len(w.service.polls)
        g["looper"](3, lambda: None, [])
        k.sleep(35)
        k.settle()
        acts = [c for c in w.sink.calls[mark_s:] if c[2] in ("log_tracepoint", "counter", "gauge", "create_span", "decorate",
                                                             "span_close")]
        if len(w.pushed) > mark_p or acts:
            threads = sorted({th for (_, th, _) in w.pushed[mark_p:]} | {c[3] for c in acts})
            who = "main" if "main" in threads else "other-thread"
            viol.append(V("acts-after-shutdown:%s" % who, "%d snapshots pushed, plugin calls %s by threads %s after "
                          "shutdown returned" % (len(w.pushed) - mark_p, [c[2] for c in acts][:4], threads)))
        if len(w.service.polls) > mark_polls:
            viol.append(V("polls-after-shutdown", "%d polls" % (len(w.service.polls) - mark_polls)))
        if w.sink.stale:
            viol.append(V("callback-on-plugin-of-an-earlier-life", str(w.sink.stale[:3])))
        open_channels = [c for c in w.service.channels if not c.closed]
        if open_channels:
            # an open channel is not passive: it keeps (re)connecting to the service, and every start opens one more
            viol.append(V("channel-left-open-after-shutdown", "%d of %d channels to the service still open" % (
                len(open_channels), len(w.service.channels))))
        if len(w.service.send_attempts) > mark_sends and "stuck" not in s["pending"]:
            # (the drain waits a bounded time per delivery: what is queued behind a delivery that outlasts it may still
            # go out later - not demanded either way)
            # shutdown drains delivery: a send that only STARTS after shutdown returned was accepted but not waited for
            late = w.service.send_attempts[mark_sends:]
            viol.append(V("sends-after-shutdown", "%d sends started after shutdown had returned (first at +%.1fs by %s); "
                          "pending at shutdown %s, %d background threads" % (
                              len(late), (late[0][0] - shutdown_done_ns) / 1e9, late[0][1], s["pending"], s["bg_threads"])))
        if w.config.tracepoints.current_hash != hash_at_shutdown:
            viol.append(V("configuration-changed-after-shutdown", "hash %r -> %r" % (hash_at_shutdown, w.config.tracepoints.current_hash)))
        if [id(t_) for t_ in w.handler._tp_config] != installed_at_shutdown:
            # an update accepted while shutdown was draining, applied after it had returned
            viol.append(V("configuration-changed-after-shutdown", "installed tracepoints replaced after shutdown had "
                          "returned (%d -> %d); poll in flight %ss, pending %s" % (
                              len(installed_at_shutdown), len(w.handler._tp_config), s.get("poll_in_flight"), s["pending"])))
        alive = [t.name for t in k.threads if t.name == "Tracepoint Long Poll" and k.alive(t)]
        if alive:
            viol.append(V("timer-alive-after-shutdown", str(alive)))
        check_hooks("35s-after-shutdown", False)
        if s.get("restart"):
            # ... and the sequence goes on: start again (the service has something new for it), act, shut down again
            k.fault("restart_after_shutdown")
            w.service.poll_faults = None
            w.service.send_faults = None
            w.service.set_config([w.service.make_tp("again", "nowhere.py", 1, {}, [])], "h-again")
            try:
                w.deep.start()
            except kernel.SimKilled:
                raise
            except BaseException as e:  # noqa
                viol.append(V("restart-raised:%s" % type(e).__name__, "start after shutdown: %r; started=%s" % (e, w.deep.started)))
            k.settle()
            check_hooks("after-restart", not s["no_trace"])
            if not s["no_trace"] and w.deep.started:
                w.handler.new_config([build_trigger("tpL", p.basename, 2, args, [], metrics)])
                mark_r = (len(w.pushed), len(w.sink.calls))
                g["looper"](2, lambda: None, [])
                if (len(w.pushed), len([c for c in w.sink.calls[mark_r[1]:] if c[2] in ("log_tracepoint", "counter", "create_span")])) == (mark_r[0], 0):
                    viol.append(V("restarted-agent-does-not-act", "2 hits of an installed %s tracepoint after the restart: nothing" % s["kind"]))
            try:
                w.deep.shutdown()
            except kernel.SimKilled:
                raise
            except BaseException as e:  # noqa
                viol.append(V("shutdown-raised:%s:after-restart" % type(e).__name__, repr(e)))
            check_hooks("after-restart-shutdown", False)
            k.settle()
        info["nontrivial"] = bool(s["pre_sys"] or s["pre_thread"] or s["pending"] or s["plugin_shutdown_raises"]
                                  or s["bg_threads"] or s["poll_errors"] or s.get("poll_in_flight"))
        sys.settrace(None)
        _rt.settrace(None)
        w.close()

    k = common.run_in_kernel(ch, s["knobs"], main)
    key = repr((sorted(s.items(), key=str), k.order_sig.hexdigest()[:6])) if info["nontrivial"] else None
    seen, vs = set(), []
    for v in viol:
        if v["sig"] not in seen:
            seen.add(v["sig"])
            vs.append(v)
    return common.result(k, vs, key=key)
