"""C06 - collection is total and per-tracepoint independent.

Fault injection at the host-object seam: one offender from a zoo of awkward values is bound in the frame (as a local,
nested in a container, as an attribute, or as a watch result) next to ordinary locals; 1-3 snapshot tracepoints sit
on the same line.  Every due snapshot must still be produced and delivered, with the ordinary variables intact and
the offender represented by something; co-located snapshots must each be complete and not share tables.
"""
import random

from simkit import common, hostgen, snapcheck, world, host, refmodel
from simkit.common import V
from . import snapcommon

ID = "C06"
ZOO = hostgen.OFFENDERS + hostgen.OFFENDERS_HOSTILE
LEVEL = "exploration"
BUDGET = {"quick": (2500, 35), "thorough": (600_000, 540)}
RULE = ("offender zoo (%d awkward values: no __dict__, non-string keys, raising __str__/__repr__/__len__/__iter__/"
        "__getattr__/__dict__/__class__/__eq__/__bool__, generators and iterators, lone surrogates, bytes, ...) x "
        "position (local / nested in list / dict value / object attribute / watch result) x 1-3 co-located "
        "tracepoints (service or direct) x 1-2 threads x seeded schedules; non-trivial = a due tracepoint event "
        "with an offender in scope; distinct = distinct (offender, position, tracepoint set) keys" % len(ZOO))
COMPONENTS = {"real": ["whole Deep agent", "collector/BFS/variable processors", "push conversion + generated stubs"],
              "stub": ["threads/clock/executor", "gRPC channel + DEEP service"]}
ASSUMPTIONS = ["offending dunders are stateless (the host's own behaviour is identical with and without the agent)",
               "what a placeholder says is not demanded, only that the variable is present with some text"]
TEXT = ("Seeded fault injection at the host-object seam against an independent reading of the frame: snapshot "
        "arrives at the simulated service, bystander variables intact, co-located snapshots complete and unshared, "
        "iterators not advanced (host differential).")
NOTE = "Trusts the reference renderer (refmodel/snapcheck) and the recorder's event attribution."
TECHNIQUE = "deterministic simulation: fault injection at host-object seam, reference-frame oracle"

POSITIONS = ("local", "local", "inlist", "dictval", "attr", "watch", "deepnest", "self")


FRESH = ("{'a': i, 'b': [i]}", "[i, 'x', {'k': i}]", "P(i, 'b')", "(i, 'two')", "'text%d' % i", "i * 1000003",
         "{'req': {'i': i, 'tid': 0}, 'i': i}", "{'i': i, 'tid': 1}", "[i, i + 1]", "None", "Q(i, [1], {'z': i})")
CAP_SRC = '''
def build(i, req, log):
    tmp = {'req': req, 'i': i}
    pad = [i, i + 1]
    %(drop)s
    res = %(value)s
    log.append(('value', res))
    %(end)s  #L:end

def tmain(tid, n, out, log):
    for i in range(n):
        try:
            %(call)s
            out.append(('ok', i))
        except BaseException as e:
            log.append(('raised', e))
            out.append(('raised', i, type(e).__name__))
'''


def generate(seed, tier):
    r = random.Random(seed)
    if r.random() < 0.2:
        # arm "capture": the awkward (or plain but freshly built) value is what the function returns or raises; a
        # method_capture / line_capture tracepoint collects at the start and completes with the value at the end, after
        # the function has dropped objects the first half of the snapshot looked at
        pool = r.choice((ZOO, hostgen.EXOTIC, FRESH, FRESH))
        return {"arm": "capture", "value": r.choice(pool), "friendly": pool is not ZOO,
                "outcome": r.choice(("return", "return", "raise")), "tps": r.choice((["mcap"], ["lcap"], ["mcap", "lcap"])),
                "drop": r.choice(("del req", "tmp = None", "pass", "del req; tmp = None; pad = None")),
                "reps": r.choice((1, 2, 3)), "knobs": common.draw_knobs(r, stall_p=0.0),
                "caller": r.choice(("plain", "plain", "classbody"))}
    off = r.choice(ZOO)
    pos = r.choice(POSITIONS)
    ntp = r.choice((1, 1, 2, 3))
    tps = []
    via = r.choice(("service", "direct"))
    for i in range(ntp):
        tp = {"id": "tp%d" % i, "line": "mark", "via": via, "watches": []}
        if r.random() < 0.4:
            tp["watches"].append("ok_int + %d" % i)
        if pos == "watch" and i == 0:
            tp["watches"].append(off)
        if r.random() < 0.45:
            tp["args"] = {"frame_type": r.choice(("all_frame", "single_frame", "no_frame"))}
        tps.append(tp)
    return {"prog": {"seed": seed, "name": "simval_%d" % (seed % 5),
                     "opts": {"n": r.randrange(0, 3), "plain": True, "off": off, "pos": pos}},
            "tps": tps, "threads": [1] if r.random() < 0.8 else [1, 1],
            "knobs": common.draw_knobs(r, stall_p=0.0)}


def _opts(scenario):
    o = scenario["prog"]["opts"]
    off, pos = o["off"], o["pos"]
    pre = ["ok_int = 31337", "ok_list = [1, 'two', 3.0]"]
    extra = []
    post = []
    if pos == "local":
        pre.append("off = %s" % off)
    elif pos == "self":
        # the frame's `self` is the awkward object: the collector reads its class for the frame header
        pre.append("off = %s" % off)
        pre.append("self = off")
    elif pos == "inlist":
        pre.append("off = [1, %s, 'after']" % off)
    elif pos == "dictval":
        pre.append("off = {'before': 1, 'it': %s, 'after': 2}" % off)
    elif pos == "attr":
        pre.append("off = P('a', 'b')")
        pre.append("off.held = %s" % off)
    elif pos == "deepnest":
        pre.append("off = {'l1': {'l2': [%s]}}" % off)
    pre.append("ok_str = 'bystander'")
    if "range(3))" in off or off.startswith("iter(") or off.startswith("zip") or off.startswith("enumerate"):
        if pos == "local":
            post.append("out.append(('iter-after', [repr(x) for x in off]))")
    return pre, extra, post


def shrink_candidates(s):
    if s.get("arm") == "capture":
        if s["reps"] > 1:
            yield dict(s, reps=s["reps"] - 1)
        if len(s["tps"]) > 1:
            yield dict(s, tps=s["tps"][:1])
            yield dict(s, tps=s["tps"][1:])
        if s["drop"] != "pass":
            yield dict(s, drop="pass")
        if s.get("caller") == "classbody":
            yield dict(s, caller="plain")
        return
    for cand in common.drop_one(s["tps"]):
        if cand:
            yield dict(s, tps=cand)
    if len(s["threads"]) > 1:
        yield dict(s, threads=[1])
    if s["prog"]["opts"]["n"]:
        p = dict(s["prog"])
        p["opts"] = dict(p["opts"], n=0)
        yield dict(s, prog=p)


def _capture(s, ch):
    viol = []
    info = {"n": 0}
    tag = "capture-%s:%s" % (s["outcome"], s["value"][:48])

    def main(k):
        from deep.api.tracepoint.trigger import LocationAction, LineLocation, FunctionLocation, Trigger, Location
        p = hostgen.start_program("simcap")
        end = "return res" if s["outcome"] == "return" else "raise HostErr('boom', res)"
        for ln in (CAP_SRC % {"drop": s["drop"], "value": s["value"], "end": end,
                              # "classbody": the caller's frame is the body of a class whose namespace is not a dict
                              "call": "via_class_body(build, i, {'i': i, 'tid': tid}, log)" if s.get("caller") == "classbody"
                              else "build(i, {'i': i, 'tid': tid}, log)"}).strip("\n").split("\n"):
            p.lines.append(ln)
        p.finish()
        end_line = next(i + 1 for i, ln in enumerate(p.source.split("\n")) if "#L:end" in ln)
        w = world.World(k, python_plugin=False)
        rec = host.Recorder(k).attach(w)
        rec.install()
        w.start()
        k.settle()
        trig = []
        for kind in s["tps"]:
            conf = {"fire_count": "-1", "fire_period": "0", "watches": []}
            if kind == "mcap":
                conf["stage"] = "method_capture"
                loc = FunctionLocation(p.basename, "build", Location.Position.CAPTURE)
            else:
                conf["stage"] = "line_capture"
                loc = LineLocation(p.basename, end_line, Location.Position.CAPTURE)
            trig.append(Trigger(loc, [LocationAction(kind, None, conf, LocationAction.ActionType.Snapshot)]))
        w.handler.new_config(trig)
        g = p.load()
        if s["drop"] != "pass":
            k.fault("object_dropped_mid_invocation")
        out, log = [], []
        host.run_threads(k, [lambda: g["tmain"](1, s["reps"], out, log)])
        common.wait_delivery(k, w, 30)
        for r_ in rec.raised:
            viol.append(V("trace-call-raised:%s" % r_[5], str(r_)))
        # what each invocation really produced, from the host's own log
        real = []
        for ent in log:
            if ent[0] == "value":
                real.append(["return", ent[1]])
            else:
                real[-1] = ["raise", ent[1]]
        wire_by_id = {sn.ID.hex(): sn for (_, _, sn, _) in w.service.snapshots}
        graph = refmodel.RefGraph()
        for kind in s["tps"]:
            mine = [es for (_, _, es) in w.pushed if es.tracepoint.id == kind]
            if len(mine) != len(real):
                viol.append(V("no-snapshot:%s" % tag, "%s: %d snapshots for %d invocations; agent errors %s" % (
                    kind, len(mine), len(real), [r_ for r_ in w.logs.records if r_[0] == "ERROR"][:2] if hasattr(w, "logs") else "")))
                continue
            for (how, obj), es in zip(real, mine):
                info["n"] += 1
                wire = wire_by_id.get(format(es.id, "032x"))
                if wire is None:
                    viol.append(V("not-delivered:%s" % tag, "%s snapshot %s never reached the service" % (kind, format(es.id, "032x"))))
                    continue
                for iss in snapcheck.closure_issues(wire):
                    viol.append(V("dangling-ref:%s" % tag, "%s: %r" % (kind, iss)))
                caps = [w_ for w_ in wire.watches if w_.source == 3]
                want_expr = "return" if how == "return" else "exception"
                if len(caps) != 1 or caps[0].expression != want_expr:
                    viol.append(V("capture-missing:%s" % tag, "%s: the invocation ended with a %s, captures on the wire: %s" % (
                        kind, how, [(c_.expression, c_.error_result) for c_ in caps])))
                    continue
                c_ = caps[0]
                if not c_.HasField("good_result") or c_.good_result.ID not in wire.var_lookup:
                    viol.append(V("capture-dangling:%s" % tag, "%s: capture %r -> id %r, not in the delivered table" % (
                        kind, c_.expression, c_.good_result.ID if c_.HasField("good_result") else None)))
                    continue
                root_id, root_obj = c_.good_result, obj
                if how == "raise":
                    # the captured value is the (type, value, traceback) triple of the event: judge the value
                    kids = {ch_.name: ch_ for ch_ in wire.var_lookup[c_.good_result.ID].children}
                    if "1" not in kids:
                        viol.append(V("capture-lacks-exception-value:%s" % tag, "%s: children %s" % (kind, sorted(kids))))
                        continue
                    root_id = kids["1"]
                res = snapcheck.walk(wire, [(root_id, graph.node(root_obj), "capture[%s]" % c_.expression)], graph,
                                     string_limit=1024, collection_limit=10, strict_text=bool(s["friendly"]))
                for iss in res.issues:
                    if s["friendly"] or iss.code in ("dangling-ref", "phantom-child", "type-mismatch"):
                        viol.append(V("capture-%s:%s" % (iss.code, tag), "%s: %r" % (kind, iss)))
                names = [v_.name for v_ in wire.frames[0].variables] if wire.frames else []
                if "i" not in names or "log" not in names:
                    viol.append(V("bystander-variable-missing:%s" % tag, "%s: frame variables %s" % (kind, names)))
        if [x[0] for x in out] != [("ok" if s["outcome"] == "return" else "raised")] * s["reps"]:
            viol.append(V("host-output-differs:%s" % tag, str(out)))
        k.probe("captures_checked", info["n"])
        w.close()

    k = common.run_in_kernel(ch, s["knobs"], main)
    seen, vs = set(), []
    for v in viol:
        if v["sig"] not in seen:
            seen.add(v["sig"])
            vs.append(v)
    return common.result(k, vs, key=repr((s["value"], s["outcome"], s["tps"], s["drop"])) if info["n"] else None)


def execute(scenario, ch):
    if scenario.get("arm") == "capture":
        return _capture(scenario, ch)
    sc = dict(scenario)
    sc["prog"] = dict(scenario["prog"])
    pre, extra, post = _opts(scenario)
    sc["prog"]["opts"] = dict(scenario["prog"]["opts"], pre_lines=pre, extra_lines=extra, post_lines=post)
    sc["tps"] = [dict(t) for t in scenario["tps"]]
    k, cases, ctx = snapcommon.run_cases(sc, ch)
    if k.capped and not k.hang:
        return common.result(k, [])     # cut off by the step / time budget: a half-done run, inconclusive
    o = scenario["prog"]["opts"]
    tag = "%s:%s" % (o["pos"], o["off"][:48])
    viol = []
    if ctx.get("raised"):
        viol.append(V("trace-call-raised:%s" % ctx["raised"][0][5], str(ctx["raised"][0])))
    by_event = {}
    for c in cases:
        by_event.setdefault(c["cap"]["seq"], []).append(c)
        cap, tp = c["cap"], c["tp"]
        if c["es"] is None:
            viol.append(V("no-snapshot:%s" % tag, "tracepoint %s at %s:%d produced nothing; agent errors %s" % (
                tp["id"], cap["basename"], cap["line"], c["errors"][:2])))
            continue
        if c["n_pushed"] != 1:
            viol.append(V("snapshot-count:%d" % c["n_pushed"], tp["id"]))
        if c["wire"] is None:
            viol.append(V("not-delivered:%s" % tag, "snapshot %s of %s was collected but never reached the service "
                          "(conversion/serialisation failed); agent errors in run: %s" % (
                              format(c["es"].id, "032x"), tp["id"],
                              [r_ for r_ in ctx["logs"] if r_[0] == "ERROR"][:2])))
        elif c.get("wire_count", 1) != 1:
            viol.append(V("delivered-count:%d" % c["wire_count"], tp["id"]))
        view = c["view"]
        if view is None:
            continue
        if not view.frames:
            viol.append(V("no-frames:%s" % tag, tp["id"]))
            continue
        names = [v.name for v in view.frames[0].variables]
        real = cap["locals"]
        ft = (tp.get("args") or {}).get("frame_type")
        # each snapshot follows its OWN tracepoint's frame_type, whatever else fired on this event
        outer_with_vars = [fi for fi, fr in enumerate(view.frames[1:], start=1)
                           if fr.variables and fr.file_name.startswith("/simapp/")]
        outer_host = [fi for fi, fr in enumerate(view.frames[1:], start=1) if fr.file_name.startswith("/simapp/")]
        if ft == "no_frame":
            if names or outer_with_vars:
                viol.append(V("frame-type-not-its-own:no_frame-has-variables", "%s collected variables %s (others on the "
                              "event: %s)" % (tp["id"], names[:4], [(t_["id"], (t_.get("args") or {}).get("frame_type"))
                                                                    for t_ in scenario["tps"]])))
            continue
        slow = o["off"].startswith("SlowStr")   # outlasts the time budget: this snapshot's OWN outer frames may go without
        if ft == "all_frame" and outer_host and len(outer_with_vars) < len(outer_host) and not slow:
            viol.append(V("frame-type-not-its-own:all_frame-lacks-outer-variables", "%s: host frames %s, with variables %s "
                          "(others on the event: %s)" % (tp["id"], outer_host, outer_with_vars, [
                              (t_["id"], (t_.get("args") or {}).get("frame_type")) for t_ in scenario["tps"]])))
        if ft != "all_frame" and outer_with_vars:
            viol.append(V("frame-type-not-its-own:single_frame-has-outer-variables", "%s: outer frames %s carry variables" % (
                tp["id"], outer_with_vars)))
        for need in real:
            if need not in names:
                which = "offender" if need in ("off", "self") else "bystander"
                viol.append(V("%s-variable-missing:%s" % (which, tag), "%s not in frame variables %s of %s" % (
                    need, names, tp["id"])))
        roots, issues = snapcheck.frame_roots(view, 0, cap["graph"], real)
        # bystanders: full C02-style rendering check; offender subtree: only closure and presence of text
        by_roots = [x for x in roots if x[0].name not in ("off", "self")]
        res = snapcheck.walk(view, by_roots, cap["graph"], string_limit=1024, collection_limit=10)
        for iss in res.issues + [i_ for i_ in issues if i_.code in ("phantom-local", "duplicate-local")]:
            viol.append(V("bystander-%s:%s" % (iss.code, tag), repr(iss)))
        off_roots = [x for x in roots if x[0].name in ("off", "self")]
        res2 = snapcheck.walk(view, off_roots, cap["graph"], string_limit=1024, collection_limit=10, strict_text=False)
        for iss in res2.issues:
            if iss.code in ("dangling-ref", "phantom-child"):
                viol.append(V("offender-%s:%s" % (iss.code, tag), repr(iss)))
        for iss in snapcheck.closure_issues(view):
            viol.append(V("dangling-ref:%s" % tag, repr(iss)))
        # watches: one result per configured watch, in order
        wexprs = [w_.expression for w_ in view.watches if str(w_.source) in ("0", "WATCH")]
        if wexprs != list(tp.get("watches", [])):
            viol.append(V("watch-results-mismatch:%s" % tag, "configured %s got %s" % (tp.get("watches"), wexprs)))
    # co-located snapshots: complete on their own, equal up to ids, not aliased
    for seq, cs in by_event.items():
        got = [c for c in cs if c["view"] is not None and c["view"].frames
               and (c["tp"].get("args") or {}).get("frame_type") != "no_frame"]
        for a in got:
            for b in got:
                if a is b:
                    continue
                na = sorted(v.name for v in a["view"].frames[0].variables)
                nb = sorted(v.name for v in b["view"].frames[0].variables)
                if na != nb:
                    viol.append(V("colocated-frames-differ", "%s has %s, %s has %s" % (a["tp"]["id"], na, b["tp"]["id"], nb)))
                if a["es"] is not None and b["es"] is not None and a["es"].var_lookup is b["es"].var_lookup:
                    viol.append(V("colocated-share-table", "%s and %s share one var_lookup object" % (
                        a["tp"]["id"], b["tp"]["id"])))
    # shared structure: the collector visits each object once; printing such a structure visits every PATH to the leaf
    # (2^14 here, 2^64 for a structure five times the size: the application thread would never come back)
    calls = len(ctx["globals"].get("REPR_CALLS", ()))
    if calls > 64 * (len(cases) + 1):
        viol.append(V("collector-work-explodes:%s" % tag, "the shared leaf of a %d-object structure was rendered %d times for "
                      "%d snapshots" % (15 if "mk_dag" in o["off"] else 0, calls, len(cases))))
    # host differential: iterators held by the host are not advanced
    g = ctx["globals"]
    for ti, out in enumerate(ctx["outs"]):
        ref = []
        g["tmain"](ti + 1, scenario["threads"][ti], ref)
        if _norm(ref) != _norm(out):
            viol.append(V("host-output-differs:%s" % tag, "with agent %s without %s" % (str(out)[:200], str(ref)[:200])))
    k.probe("due_events", len(cases))
    k.probe("snapshots", sum(1 for c in cases if c["es"] is not None))
    k.probe("colocated_events", sum(1 for cs in by_event.values() if len(cs) > 1))
    seen, vs = set(), []
    for v in viol:
        if v["sig"] not in seen:
            seen.add(v["sig"])
            vs.append(v)
    key = repr((o["off"], o["pos"], [(t["id"], t.get("via"), t.get("watches")) for t in scenario["tps"]])) if cases else None
    return common.result(k, vs, key=key)


def _norm(out):
    return [repr(x) for x in out]
