"""C18 - resource identity: merge precedence, mandatory keys, bounded attribute store.

Arm "lin": 2-4 simulated threads issue set / delete / get / len / iterate / merge_in on one BoundedAttributes
(capacity 0-4, few keys, unique values) with a pre-emption point at every line of deep/api/attributes (its lock is a
simulated lock); invoke/return events are stamped with the kernel's global step and the history (<= 12 operations) is
checked for linearizability against a sequential model.
Arm "seq": single-thread sequences of 1-40 operations with arbitrary keys and values against the same model, and
Resource.merge chains with schema URLs.
Arm "wire": generated combinations of built-in defaults, DEEP_RESOURCE_ATTRIBUTES, DEEP_SERVICE_NAME and resource
provider plugins (overlapping keys, orders): the resource in every PollRequest and Snapshot at the simulated service.
"""
import os
import random

from simkit import common, hostgen, host, world, shims, kernel, linetrace, seams
from simkit.common import V

ID = "C18"
LEVEL = "exploration"
BUDGET = {"quick": (4000, 35), "thorough": (1_500_000, 540)}
RULE = ("arm lin: concurrent histories of 4-12 operations by 2-4 threads on one container (capacity in {None,0,1,2,4}) "
        "under seeded line-level schedules, Wing-Gong linearizability search against the sequential model; arm seq: "
        "1-40 operations with arbitrary keys/values (invalid keys, bytes, mixed/nested sequences, over-long strings, "
        "None) incl. freezing, and merge chains of 2-4 resources with schema URLs; arm wire: source combinations x "
        "provider orders through the whole agent; non-trivial = a lin history with overlapping operations, a seq "
        "history with an eviction or a rejection, or a wire run with an overridden key; distinct = distinct histories")
COMPONENTS = {"real": ["deep.api.attributes.BoundedAttributes", "deep.api.resource.Resource", "whole agent (wire arm)"],
              "stub": ["threads/clock/lock (simkit)", "gRPC channel + DEEP service", "resource provider plugins"]}
ASSUMPTIONS = ["merge_in is modelled as a sequence of single sets (the statement does not claim it atomic)",
               "reads (get/len/iterate) are lock-free in the code and not claimed atomic by the statement: they are held to "
               "the invariants, only modifications + final state are checked for linearizability",
               "histories are capped at 12 operations for the linearizability search"]
TEXT = ("Seeded exploration: linearizability of the concurrent container against a 40-line sequential model under "
        "line-level schedules; model-based operation sequences; resource as observed on the wire.")
NOTE = "The linearizability checker is a plain Wing-Gong search (exponential, bounded by the history cap)."
TECHNIQUE = "deterministic simulation: linearizability vs sequential model under seeded line-level schedules"

VALID_TYPES = (bool, str, bytes, int, float)


class Model:
    """Sequential reference of BoundedAttributes."""

    def __init__(self, max_length=None, immutable=False, max_value_len=None):
        self.max_length = max_length
        self.immutable = immutable
        self.max_value_len = max_value_len
        self.items = []     # ordered (key, value)
        self.dropped = 0

    def clean(self, key, value):
        if not (key and isinstance(key, str)):
            return None
        if isinstance(value, VALID_TYPES):
            return self._cv(value)
        if isinstance(value, (list, tuple)):
            first = None
            out = []
            for e in value:
                e = self._cv(e)
                if e is None:
                    out.append(None)
                    continue
                if type(e) not in VALID_TYPES:
                    return None
                if first is None:
                    first = type(e)
                elif type(e) is not first:
                    return None
                out.append(e)
            return tuple(out)
        return None

    def _cv(self, v):
        if v is None:
            return None
        if isinstance(v, bytes):
            try:
                v = v.decode()
            except UnicodeDecodeError:
                return None
        if self.max_value_len is not None and isinstance(v, str):
            v = v[:self.max_value_len]
        return v

    def set(self, key, value):
        if self.immutable:
            return "TypeError"
        if self.max_length == 0:
            self.dropped += 1
            return None
        v = self.clean(key, value)
        if v is None:
            return None
        keys = [k for k, _ in self.items]
        if key in keys:
            self.items = [(k, x) for k, x in self.items if k != key]
        elif self.max_length is not None and len(self.items) == self.max_length:
            self.items.pop(0)
            self.dropped += 1
        self.items.append((key, v))
        return None

    def delete(self, key):
        if self.immutable:
            return "TypeError"
        keys = [k for k, _ in self.items]
        if key not in keys:
            return "KeyError"
        self.items = [(k, x) for k, x in self.items if k != key]
        return None

    def get(self, key):
        for k, v in self.items:
            if k == key:
                return ("ok", v)
        return "KeyError"

    def state(self):
        return (tuple(self.items), self.dropped)

    def copy(self):
        m = Model(self.max_length, self.immutable, self.max_value_len)
        m.items = list(self.items)
        m.dropped = self.dropped
        return m


def apply_model(m, op):
    kind = op[0]
    if kind == "set":
        return m.set(op[1], op[2])
    if kind == "del":
        return m.delete(op[1])
    if kind == "get":
        return m.get(op[1])
    if kind == "len":
        return ("ok", len(m.items))
    if kind == "iter":
        return ("ok", tuple(k for k, _ in m.items))
    if kind == "dropped":
        return ("ok", m.dropped)
    raise ValueError(kind)


def apply_real(b, op):
    kind = op[0]
    try:
        if kind == "set":
            b[op[1]] = op[2]
            return None
        if kind == "del":
            del b[op[1]]
            return None
        if kind == "get":
            return ("ok", b[op[1]])
        if kind == "len":
            return ("ok", len(b))
        if kind == "iter":
            return ("ok", tuple(iter(b)))
        if kind == "dropped":
            return ("ok", b.dropped)
    except kernel.SimKilled:
        raise
    except TypeError:
        return "TypeError"
    except KeyError:
        return "KeyError"
    raise ValueError(kind)


def linearizable(history, model0):
    """history: list of (inv, ret, op, result).  Wing-Gong: search for a sequential order respecting real time."""
    n = len(history)
    seen = set()

    def search(done, m):
        if len(done) == n:
            return True
        key = (frozenset(done), m.state())
        if key in seen:
            return False
        seen.add(key)
        # minimal elements: operations not done whose invocation precedes the return of every other pending op
        pend = [i for i in range(n) if i not in done]
        min_ret = min(history[i][1] for i in pend)
        for i in pend:
            if history[i][0] > min_ret:
                continue
            m2 = m.copy()
            if apply_model(m2, history[i][2]) == history[i][3]:
                if search(done | {i}, m2):
                    return True
        return False
    return search(frozenset(), model0)


KEYS = ("a", "b", "c")
ODD_KEYS = ("", None, 5, "k", "a", "long" * 10)
ODD_VALUES = (1, 2.5, True, "s", "x" * 50, b"by", b"\xff\xfe", None, [1, 2], ["a", "b"], [1, "a"], [1, None, 2], (b"x", b"y"),
              [[1]], {"d": 1}, object, [True, 1], [], "", 0)


def generate(seed, tier):
    r = random.Random(seed)
    arm = r.choice(("lin", "lin", "seq", "seq", "wire"))
    knobs = common.race_knobs(r, stall_p=0.0)
    if arm == "lin":
        nthreads = r.randrange(2, 5)
        total = r.randrange(4, 13)
        threads = [[] for _ in range(nthreads)]
        uniq = 0
        for i in range(total):
            k = r.random()
            if k < 0.5:
                uniq += 1
                op = ["set", r.choice(KEYS), uniq]
            elif k < 0.6:
                op = ["del", r.choice(KEYS)]
            elif k < 0.75:
                op = ["get", r.choice(KEYS)]
            elif k < 0.85:
                op = ["len"]
            elif k < 0.95:
                op = ["iter"]
            else:
                op = ["dropped"]
            threads[r.randrange(nthreads)].append(op)
        return {"arm": "lin", "cap": r.choice((None, 0, 1, 2, 2, 4)), "threads": threads,
                "knobs": dict(knobs, p_switch=r.choice((0.05, 0.15, 0.4)))}
    if arm == "seq":
        ops = []
        for _ in range(r.randrange(1, 41)):
            k = r.random()
            if k < 0.6:
                ops.append(["set", r.choice(ODD_KEYS + KEYS), ("v", r.randrange(len(ODD_VALUES)))])
            elif k < 0.75:
                ops.append(["del", r.choice(KEYS + ("k",))])
            elif k < 0.85:
                ops.append(["get", r.choice(KEYS)])
            else:
                ops.append([r.choice(("len", "iter", "dropped"))])
        merges = []
        for _ in range(r.randrange(2, 5)):
            merges.append({"attrs": {r.choice(KEYS + ("service.name", "x")): r.choice((1, "s", True, 2.5, ["a"])) for _ in range(r.randrange(0, 4))},
                           "schema": r.choice(("", "", "http://a", "http://b"))})
        # attributes handed to Resource.create in code: some of them for the built-in keys, some with values the
        # attribute model does not admit (index into CREATE_VALUES)
        create = [[r.choice(CREATE_KEYS), r.randrange(len(CREATE_VALUES))] for _ in range(r.randrange(0, 4))]
        return {"arm": "seq", "cap": r.choice((None, 0, 1, 3, 5)), "max_value_len": r.choice((None, None, 4, 0)),
                "freeze_at": r.choice((None, None, r.randrange(0, 10))), "ops": ops, "merges": merges, "create": create,
                "knobs": knobs}
    provs = []
    for i in range(r.randrange(0, 4)):
        provs.append({"name": "Res%d" % i, "order": r.choice((0, 0, 1, -1, 5)),
                      "attrs": {r.choice(("service.name", "team", "zone", "telemetry.sdk.name")): "p%d" % i,
                                "only%d" % i: i}})
    # many attributes (a cloud / k8s resource detector; a long DEEP_RESOURCE_ATTRIBUTES): nothing is squeezed out
    if provs and r.random() < 0.3:
        for p_ in provs:
            if r.random() < 0.6:
                p_["attrs"].update({"bulk.%s.%d" % (p_["name"], j): j for j in range(r.choice((40, 70, 130, 300)))})
    env_attrs = r.choice((None, "team=env,zone=eu%20west", "service.name=fromattrs", "bad,team=x",
                          # a stray byte in a KEY (the environment is decoded with surrogateescape)
                          "te\udcffam=core,zone=eu"))
    if r.random() < 0.1:
        env_attrs = ",".join(["team=env"] + ["env.k%d=v%d" % (j, j) for j in range(r.choice((60, 140, 260)))])
    # values that are fine as attributes but awkward on the wire: not UTF-8 (an environment value in another encoding
    # arrives with surrogate escapes), an integer beyond 64 bit
    if provs and r.random() < 0.2:
        provs[0]["attrs"].update({"odd.name": "caf\udce9", "odd.big": 2 ** 70})
    return {"arm": "wire", "env_attrs": env_attrs,
            "env_service": r.choice((None, None, "envsvc", "caf\udce9")), "provs": provs, "knobs": knobs}


def shrink_candidates(s):
    if s["arm"] == "lin":
        for ti, ops in enumerate(s["threads"]):
            for cand in common.drop_one(ops):
                yield dict(s, threads=s["threads"][:ti] + [cand] + s["threads"][ti + 1:])
    elif s["arm"] == "seq":
        for cand in common.drop_one(s["ops"]):
            yield dict(s, ops=cand)
        for cand in common.drop_one(s["merges"]):
            if len(cand) >= 2:
                yield dict(s, merges=cand)
    else:
        for cand in common.drop_one(s["provs"]):
            yield dict(s, provs=cand)


def execute(s, ch):
    if s["arm"] == "lin":
        return _lin(s, ch)
    if s["arm"] == "seq":
        return _seq(s, ch)
    return _wire(s, ch)


def _lin(s, ch):
    viol = []
    info = {"overlap": False}

    def main(k):
        seams.install()
        from deep.api.attributes import BoundedAttributes
        b = BoundedAttributes(max_length=s["cap"], immutable=False)
        hist = []
        tracer = linetrace.LineTracer(k, (os.path.join(seams.SRC, "deep/api/attributes"),))
        tracer.install()

        def worker(ops):
            for op in ops:
                op = tuple(op)
                inv = k.yields
                k.yield_point("op-inv")
                res = apply_real(b, op)
                k.yield_point("op-ret")
                hist.append((inv, k.yields, op, res))
        ts = [shims.SimThread(target=worker, args=(ops,), name="w%d" % i) for i, ops in enumerate(s["threads"])]
        for t in ts:
            t.start()
        for t in ts:
            t.join()
        tracer.uninstall()
        # final state is observable too: append sequential reads after everything
        end = k.yields + 1
        fin = [("iter",), ("dropped",), ("len",)]
        for i, op in enumerate(fin):
            hist.append((end + 2 * i, end + 2 * i + 1, op, apply_real(b, op)))
        info["overlap"] = any(a[0] < c[1] and c[0] < a[1] for i, a in enumerate(hist) for c in hist[i + 1:])
        k.log("hist", hist)
        if len(b) > (s["cap"] if s["cap"] is not None else 1 << 30):
            viol.append(V("over-capacity", "%d > %s" % (len(b), s["cap"])))
        # The statement gives invariants, not atomic reads: get/len/iterate take no lock and may see an overwrite
        # half-way (key removed, not yet re-inserted).  So: modifications (serialised by the container's lock) plus the
        # final reads must be linearizable; concurrent reads are held to the invariants only.
        cap = s["cap"] if s["cap"] is not None else 1 << 30
        written = {}
        for (_, _, op, _) in hist:
            if op[0] == "set":
                written.setdefault(op[1], set()).add(op[2])
        for (inv, ret, op, res) in hist[:-len(fin)]:
            if op[0] == "len" and not (0 <= res[1] <= cap):
                viol.append(V("concurrent-len-over-capacity", "%r with capacity %s" % (res, s["cap"])))
            if op[0] == "iter" and (len(res[1]) > cap or any(k_ not in written for k_ in res[1])):
                viol.append(V("concurrent-iterate-invalid", "%r with capacity %s" % (res, s["cap"])))
            if op[0] == "get" and res != "KeyError" and res[1] not in written.get(op[1], ()):
                viol.append(V("concurrent-get-never-written-value", "%r for %r" % (res, op)))
        whist = [h for h in hist[:-len(fin)] if h[2][0] in ("set", "del")] + hist[-len(fin):]
        if not linearizable(whist, Model(s["cap"])):
            viol.append(V("modifications-not-linearizable", "capacity %s history (invoke, return, op, result) %s" % (s["cap"], whist)))
        k.probe("overlapping_histories", 1 if info["overlap"] else 0)
        k.probe("lock_contended", 0)

    k = common.run_in_kernel(ch, s["knobs"], main)
    key = repr((s["cap"], s["threads"], k.order_sig.hexdigest()[:10])) if info["overlap"] else None
    return common.result(k, viol, key=key)


CREATE_KEYS = ("telemetry.sdk.name", "telemetry.sdk.version", "telemetry.sdk.language", "service.name", "custom.k", "team")
#: (value, admitted by the attribute model?)
CREATE_VALUES = (("mine", True), (7, True), (True, True), (2.5, True), (["a", "b"], True),
                 (None, False), ({"a": 1}, False), ([1, "a"], False), (object, False))


def _seq(s, ch):
    viol = []
    info = {"interesting": False}
    seams.install()
    from deep.api.attributes import BoundedAttributes
    from deep.api.resource import Resource
    b = BoundedAttributes(max_length=s["cap"], immutable=False, max_value_len=s["max_value_len"])
    m = Model(s["cap"], False, s["max_value_len"])
    for i, op in enumerate(s["ops"]):
        if s["freeze_at"] is not None and i == s["freeze_at"]:
            b._immutable = True
            m.immutable = True
        op2 = tuple(ODD_VALUES[x[1]] if isinstance(x, (list, tuple)) and len(x) == 2 and x[0] == "v" else x for x in op)
        before = m.state()
        want = apply_model(m, op2)
        try:
            got = apply_real(b, op2)
        except BaseException as e:  # noqa
            got = "raised %s" % type(e).__name__
        if op2[0] == "set" and (m.state() == before or m.dropped != before[1]):
            info["interesting"] = True
        real_state = (tuple(b._dict.items()), b.dropped)
        if got != want:
            viol.append(V("operation-result:%s" % op2[0], "op %d %r: container %r, model %r" % (i, op2, got, want)))
            break
        if real_state != m.state():
            what = "dropped-counter" if real_state[0] == m.state()[0] else "contents"
            viol.append(V("state-differs:%s:%s" % (op2[0], what), "after op %d %r (capacity %s, value limit %s, frozen %s): "
                          "container %r, model %r" % (i, op2, s["cap"], s["max_value_len"], m.immutable, real_state, m.state())))
            break
        if s["cap"] is not None and len(b) > s["cap"]:
            viol.append(V("over-capacity", "%d > %d" % (len(b), s["cap"])))
    # ---- merge chains: right-biased union, operands unchanged
    rs = [Resource(dict(mm["attrs"]), mm["schema"]) for mm in s["merges"]]
    snap = [(dict(r_.attributes), r_.schema_url) for r_ in rs]
    acc = rs[0]
    want_attrs = dict(Model().items)
    wm = Model()
    for k_, v_ in s["merges"][0]["attrs"].items():
        wm.set(k_, v_)
    want_schema = s["merges"][0]["schema"]
    blocked = False
    for mm, r_ in zip(s["merges"][1:], rs[1:]):
        acc = acc.merge(r_)
        if want_schema and mm["schema"] and want_schema != mm["schema"]:
            continue        # incompatible schemas: the old resource is kept
        for k_, v_ in mm["attrs"].items():
            wm.set(k_, v_)
        want_schema = want_schema or mm["schema"]
    got_attrs = dict(acc.attributes)
    if got_attrs != dict(wm.items):
        viol.append(V("merge-precedence", "chain %s merged to %r, right-biased union is %r" % (s["merges"], got_attrs, dict(wm.items))))
    if acc.schema_url != want_schema:
        viol.append(V("merge-schema", "%r vs %r" % (acc.schema_url, want_schema)))
    for r_, (a0, s0) in zip(rs, snap):
        if dict(r_.attributes) != a0 or r_.schema_url != s0:
            viol.append(V("merge-modified-operand", "%r -> %r" % (a0, dict(r_.attributes))))
    # ---- Resource.create with attributes given in code: a value that is not admitted is rejected, it does not take the
    # value of an earlier source (the SDK identity, the service name) with it
    if s.get("create"):
        base = dict(Resource.create().attributes)
        given = {}
        for key_, vi in s["create"]:
            given[key_] = CREATE_VALUES[vi]
        try:
            made = dict(Resource.create({k_: v_[0] for k_, v_ in given.items()}).attributes)
        except BaseException as e:  # noqa
            made = None
            viol.append(V("resource-create-raised:%s" % type(e).__name__, repr(given)))
        if made is not None:
            for key_ in ("telemetry.sdk.name", "telemetry.sdk.version", "telemetry.sdk.language", "service.name"):
                if key_ not in made:
                    viol.append(V("resource-key-missing:sdk-or-service", "Resource.create(%r) lacks %s" % (
                        {k_: v_[0] for k_, v_ in given.items()}, key_)))
            for key_, (val, ok) in given.items():
                want_v = (tuple(val) if isinstance(val, list) else val) if ok else base.get(key_)
                if made.get(key_) != want_v and key_ in made or (want_v is not None and key_ not in made and key_ not in (
                        "telemetry.sdk.name", "telemetry.sdk.version", "telemetry.sdk.language", "service.name")):
                    viol.append(V("resource-create-precedence", "key %s given %r (%s): resource has %r, expected %r" % (
                        key_, val, "valid" if ok else "not admitted", made.get(key_), want_v)))
    try:
        rs[0].attributes["new"] = 1
        viol.append(V("resource-attributes-mutable", ""))
    except TypeError:
        pass
    key = repr((s["cap"], s["max_value_len"], s["freeze_at"], s["ops"])) if info["interesting"] else None
    return {"violations": viol, "faults": {}, "probes": {"seq_ops": len(s["ops"])}, "sim_ns": 0, "steps": 0,
            "digest": "seq-%s" % common.__name__ + repr((len(viol), s["ops"]))[:200], "key": key, "order": ""}


def _wire_form(v):
    """What a faithful transport makes of a value: text that is not UTF-8 escaped, an integer beyond 64 bit as text."""
    from simkit.refmodel import esc
    if isinstance(v, str):
        return esc(v)
    if isinstance(v, int) and not isinstance(v, bool) and not -2 ** 63 <= v < 2 ** 63:
        return str(v)
    return v


def h_(text):
    import hashlib
    return hashlib.sha1(text.encode()).hexdigest()[:16]


def _wire(s, ch):
    viol = []
    info = {"override": False}
    saved = {k_: os.environ.get(k_) for k_ in ("DEEP_RESOURCE_ATTRIBUTES", "DEEP_SERVICE_NAME")}
    if s["env_attrs"] is not None:
        os.environ["DEEP_RESOURCE_ATTRIBUTES"] = s["env_attrs"]
    else:
        os.environ.pop("DEEP_RESOURCE_ATTRIBUTES", None)
    if s["env_service"] is not None:
        os.environ["DEEP_SERVICE_NAME"] = s["env_service"]
    else:
        os.environ.pop("DEEP_SERVICE_NAME", None)

    def main(k):
        plugs = [{"name": p_["name"], "kinds": ["resource"], "order": p_["order"], "resource": p_["attrs"]} for p_ in s["provs"]]
        w = world.World(k, plugins=plugs, python_plugin=False)
        w.start()
        k.settle()
        from deep.api.tracepoint.trigger import build_trigger
        p = hostgen.start_program("simres", prelude=False)
        p.lines += ["def f(a):", "    b = a", "    return b"]
        p.finish()
        rec = host.Recorder(k).attach(w)
        rec.install()
        w.handler.new_config([build_trigger("tpR", p.basename, 2, {"fire_count": "-1", "fire_period": "0"}, [], [])])
        g = p.load()
        t = shims.SimThread(target=lambda: g["f"](1), name="app0")
        t.start()
        t.join()
        common.wait_delivery(k, w, 20)
        k.sleep(11)
        k.settle()
        # expectation: defaults < DEEP_RESOURCE_ATTRIBUTES < DEEP_SERVICE_NAME < providers in plugin order
        import deep.version
        want = {"telemetry.sdk.language": "python", "telemetry.sdk.name": "deep", "telemetry.sdk.version": deep.version.__version__}
        if s["env_attrs"]:
            from urllib import parse
            for item in s["env_attrs"].split(","):
                if "=" in item:
                    a, b_ = item.split("=", 1)
                    want[a.strip()] = parse.unquote(b_.strip())
        if s["env_service"]:
            want["service.name"] = s["env_service"]
        if "service.name" not in want:
            want["service.name"] = None     # some default must be there
        for p_ in sorted(s["provs"], key=lambda x: x["order"]):
            for a, b_ in p_["attrs"].items():
                if a in want and want[a] is not None and want[a] != b_:
                    info["override"] = True
                want[a] = b_
        seen_resources = [("poll", pl[4]) for pl in w.service.polls[1:]]
        for (_, _, sn, _) in w.service.snapshots:
            seen_resources.append(("snapshot", {kv.key: (kv.value.string_value if kv.value.WhichOneof("value") == "string_value"
                                                            else kv.value.int_value) for kv in sn.resource}))
        if not seen_resources:
            viol.append(V("no-resource-observed", ""))
        for where, res in seen_resources:
            for key_, val in want.items():
                key_ = _wire_form(key_)     # (a key that is not valid UTF-8 arrives escaped, like a value)
                if key_ not in res:
                    viol.append(V("resource-key-missing:%s" % ("sdk-or-service" if key_.startswith(("telemetry", "service")) else "source"),
                                  "%s lacks %r (%s); it has %d keys: %r" % (where, key_, val, len(res), sorted(res)[:12])))
                elif val is not None and res[key_] != _wire_form(val):
                    viol.append(V("resource-precedence", "%s: %s=%r, the latest source says %r; sources env_attrs=%r env_service=%r "
                                  "providers (in order) %s" % (where, key_, res[key_], val, s["env_attrs"], s["env_service"],
                                                               [(p_["name"], p_["order"], p_["attrs"]) for p_ in sorted(s["provs"], key=lambda x: x["order"])])))
                elif val is None and not res[key_]:
                    viol.append(V("service-name-empty", where))
        w.deep.shutdown()
        w.close()

    try:
        k = common.run_in_kernel(ch, s["knobs"], main)
    finally:
        for k_, v_ in saved.items():
            if v_ is None:
                os.environ.pop(k_, None)
            else:
                os.environ[k_] = v_
    key = h_(repr((s["env_attrs"], s["env_service"], s["provs"]))) if info["override"] or len(s["env_attrs"] or "") > 200 or any(
        len(p_["attrs"]) > 10 for p_ in s["provs"]) else None
    seen, vs = set(), []
    for v in viol:
        if v["sig"] not in seen:
            seen.add(v["sig"])
            vs.append(v)
    return common.result(k, vs, key=key)
