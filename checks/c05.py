"""C05 - collection is bounded and spends its budget breadth-first.

The four limits are per-run knobs (set through directly constructed action configs - the only way the code offers);
value programs bind structures larger than each limit in every declaration order; invariants are checked on every
collected snapshot against the recorder's independent traversal of the same frame.
"""
import random

from simkit import common, snapcheck
from simkit.common import V
from . import snapcommon

ID = "C05"
LEVEL = "exploration"
BUDGET = {"quick": (2500, 35), "thorough": (600_000, 540)}
RULE = ("seeded value programs with structures larger than each limit (wide lists/sets/tuples/dicts, deep nests, "
        "object chains, long strings) bound first / last / in the middle of 1-7 locals x MAX_VARIABLES in "
        "{0,1,2,5,20,1000} x MAX_STRING_LENGTH in {0,1,8,1024} x MAX_COLLECTION_SIZE in {0,1,3,10} x MAX_VAR_DEPTH in "
        "{1,2,3,5} x watches x all_frame; invariants: count, string, collection and depth bounds, truncated flag "
        "exact, breadth-first closure (every real node shallower than the deepest recorded level is present); arm "
        "race: two tracepoints with different limits hit by two threads at once under line-level schedules (each "
        "snapshot obeys its own limits); "
        "non-trivial = a snapshot in which at least one limit actually cut something; distinct = distinct scenarios")
COMPONENTS = {"real": ["whole Deep agent", "collector/BFS/variable processors"],
              "stub": ["threads/clock/executor", "gRPC channel + DEEP service"]}
ASSUMPTIONS = ["limits reach the collector only through directly constructed action configs (integer values, which "
               "the wire format cannot carry): snapshots are inspected where they are handed to PushService",
               "no cap on dict children is demanded; depth is counted with frame variables at depth 1"]
TEXT = ("Seeded exploration with the limits as per-run tuning knobs; bound invariants plus a breadth-first closure "
        "check against an independent level-order traversal of the real object graph.")
NOTE = "Trusts refmodel/snapcheck; time budget (MAX_TP_PROCESS_TIME) exhaustion is observed but not demanded."
TECHNIQUE = "deterministic simulation: randomised limits as knobs, invariant monitoring vs reference traversal"


RACE_SRC = '''
def mk_deep(d):
    v = 7
    for _i in range(d):
        v = [v]
    return v

def fa():
    big = [[i, str(i) * 40] for i in range(60)]
    txt = 'x' * 300
    st = set(range(40))
    deep = mk_deep(7)
    tup = tuple('t%d' % i for i in range(30))
    probe()
    return 0

def fb():
    big = [[i, str(i) * 40] for i in range(60)]
    txt = 'x' * 300
    st = set(range(40))
    deep = mk_deep(7)
    tup = tuple('t%d' % i for i in range(30))
    probe()
    return 0
'''


def _gen_limits(r):
    return {"MAX_VARIABLES": r.choice((3, 12, 40, 1000)), "MAX_STRING_LENGTH": r.choice((5, 10, 1024)),
            "MAX_COLLECTION_SIZE": r.choice((1, 3, 10, 50)), "MAX_VAR_DEPTH": r.choice((2, 3, 5, 8))}


def generate(seed, tier):
    r = random.Random(seed)
    if r.random() < 0.25:
        # arm "race": two tracepoints with DIFFERENT limits are hit by two threads at once, with a pre-emption point at
        # every line of the collector (mode D): each snapshot must obey its own tracepoint's limits
        return {"arm": "race", "limits": [_gen_limits(r), _gen_limits(r)], "reps": r.choice((1, 2)),
                "knobs": common.race_knobs(r, stall_p=0.0, p_switch=r.choice((0.05, 0.15, 0.4)))}
    opts = {"n": r.randrange(1, 8), "big": True, "plain": True, "order": r.choice(("asis", "reverse", "shuffle"))}
    lim = {}
    if r.random() < 0.8:
        lim["MAX_VARIABLES"] = r.choice((0, 1, 2, 5, 20, 50, 1000))
    if r.random() < 0.5:
        lim["MAX_STRING_LENGTH"] = r.choice((0, 1, 8, 1024))
    if r.random() < 0.5:
        lim["MAX_COLLECTION_SIZE"] = r.choice((0, 1, 3, 10))
    if r.random() < 0.5:
        lim["MAX_VAR_DEPTH"] = r.choice((1, 2, 3, 5))
    tp = {"id": "tp0", "line": "mark", "via": "direct", "args": {}, "limits": lim,
          "watches": r.sample(("depth", "ctx", "[depth] * 50", "'w' * 3000", "{'a': [1, [2, [3, [4, [5, [6]]]]]]}",
                               "list(range(40))"), r.choice((0, 0, 1, 2)))}
    if r.random() < 0.15:
        tp["args"]["frame_type"] = "all_frame"
    return {"prog": {"seed": seed, "name": "simval_%d" % (seed % 5), "opts": opts}, "tps": [tp],
            "threads": [1], "knobs": common.draw_knobs(r, stall_p=0.0)}


def shrink_candidates(s):
    if s.get("arm") == "race":
        if s["reps"] > 1:
            yield dict(s, reps=1)
        return
    tp = s["tps"][0]
    for wl in common.drop_one(tp["watches"]):
        yield dict(s, tps=[dict(tp, watches=wl)])
    for key in list(tp["limits"]):
        l2 = dict(tp["limits"])
        del l2[key]
        yield dict(s, tps=[dict(tp, limits=l2)])
    o = s["prog"]["opts"]
    if o["n"] > 1:
        yield dict(s, prog=dict(s["prog"], opts=dict(o, n=o["n"] - 1)))
    if o["order"] != "asis":
        yield dict(s, prog=dict(s["prog"], opts=dict(o, order="asis")))


def _depth(view, roots):
    best = 0
    seen = {}
    q = [(v.ID, 1) for v in roots]
    while q:
        vid, d = q.pop(0)
        if vid in seen or vid not in view.var_lookup:
            continue
        seen[vid] = d
        best = max(best, d)
        q += [(c.ID, d + 1) for c in view.var_lookup[vid].children]
    return best


def _race(scenario, ch):
    import os
    import sys
    from simkit import hostgen, host, world, shims, kernel, linetrace, seams
    viol = []
    info = {"both": 0}

    def main(k):
        from deep.api.tracepoint.trigger import LocationAction, LineLocation, Trigger, Location
        p = hostgen.start_program("simlimrace", prelude=False)
        for ln in RACE_SRC.strip("\n").split("\n"):
            p.lines.append(ln)
        p.finish()
        lines = [i + 1 for i, ln in enumerate(p.source.split("\n")) if ln.strip() == "probe()"]
        w = world.World(k, cfg={"NO_TRACE": True}, python_plugin=False)
        w.start()
        k.settle()
        trig = []
        for i, lim in enumerate(scenario["limits"]):
            conf = {"watches": [], "fire_count": "-1", "fire_period": "-100000000"}
            conf.update(lim)
            act = LocationAction("tp%d" % i, None, conf, LocationAction.ActionType.Snapshot)
            trig.append(Trigger(LineLocation(p.basename, lines[i], Location.Position.START), [act]))
        w.handler.new_config(trig)
        handler = w.handler
        tracer = linetrace.LineTracer(k, (os.path.join(seams.SRC, "deep/processor"),))

        def probe():
            handler.trace_call(sys._getframe(1), "line", None)
        g = p.load({"probe": probe})
        tracer.install()
        fns = [lambda: [g["fa"]() for _ in range(scenario["reps"])], lambda: [g["fb"]() for _ in range(scenario["reps"])]]
        host.run_threads(k, fns)
        tracer.uninstall()
        for (_, th, es) in w.pushed:
            i = int(es.tracepoint.id[2:])
            lim = dict(snapcommon.DEFAULTS)
            lim.update(scenario["limits"][i])
            view = snapcommon.SnapView(es)
            other = scenario["limits"][1 - i]
            n = len(view.var_lookup)
            if n > lim["MAX_VARIABLES"] + 1:
                viol.append(V("race:count-over-budget", "%s holds %d variables, its MAX_VARIABLES is %d (the other "
                              "tracepoint's is %d)" % (es.tracepoint.id, n, lim["MAX_VARIABLES"], other["MAX_VARIABLES"])))
            for vid, var in view.var_lookup.items():
                if len(var.value) > lim["MAX_STRING_LENGTH"]:
                    viol.append(V("race:string-over-limit", "%s: value of length %d, its limit is %d (other %d)" % (
                        es.tracepoint.id, len(var.value), lim["MAX_STRING_LENGTH"], other["MAX_STRING_LENGTH"])))
                    break
            for vid, var in view.var_lookup.items():
                if var.type in ("list", "tuple", "set", "frozenset") and len(var.children) > lim["MAX_COLLECTION_SIZE"]:
                    viol.append(V("race:collection-over-limit", "%s: %s with %d children, its limit is %d (other %d)" % (
                        es.tracepoint.id, var.type, len(var.children), lim["MAX_COLLECTION_SIZE"], other["MAX_COLLECTION_SIZE"])))
                    break
            if view.frames:
                d = _depth(view, view.frames[0].variables)
                if d > lim["MAX_VAR_DEPTH"]:
                    viol.append(V("race:depth-over-limit", "%s: depth %d, its limit is %d (other %d)" % (
                        es.tracepoint.id, d, lim["MAX_VAR_DEPTH"], other["MAX_VAR_DEPTH"])))
        info["both"] = len({es.tracepoint.id for (_, _, es) in w.pushed})
        k.probe("race_snapshots", len(w.pushed))
        w.deep.shutdown()
        w.close()

    k = common.run_in_kernel(ch, scenario["knobs"], main)
    key = repr((scenario["limits"], k.order_sig.hexdigest()[:10])) if info["both"] == 2 else None
    return common.result(k, snapcommon.dedup(viol), key=key)


def execute(scenario, ch):
    if scenario.get("arm") == "race":
        return _race(scenario, ch)
    sc = dict(scenario, tps=[dict(t) for t in scenario["tps"]], ref_depth=7)
    k, cases, ctx = snapcommon.run_cases(sc, ch)
    if k.capped and not k.hang:
        return common.result(k, [])     # cut off by the step / time budget: a half-done run, inconclusive
    viol = []
    cut_seen = 0
    if ctx.get("raised"):
        viol.append(V("trace-call-raised:%s" % ctx["raised"][0][5], str(ctx["raised"][0])))
    for c in cases:
        view, cap, tp = c["view"], c["cap"], c["tp"]
        if view is None:
            if c["es"] is None:
                viol.append(V("no-snapshot", "errors %s" % c["errors"][:2]))
            continue
        lim = snapcommon.effective_limits(tp)
        mv, ms, mc, md = lim["MAX_VARIABLES"], lim["MAX_STRING_LENGTH"], lim["MAX_COLLECTION_SIZE"], lim["MAX_VAR_DEPTH"]
        nvars = len(view.var_lookup)
        if nvars > mv + 1:
            viol.append(V("count-over-budget", "%d variables with MAX_VARIABLES=%d (watches %s)" % (
                nvars, mv, tp["watches"])))
        for vid, var in view.var_lookup.items():
            if len(var.value) > ms:
                viol.append(V("string-over-limit", "var %s len %d > %d" % (vid, len(var.value), ms)))
        if not view.frames:
            continue
        g = cap["graph"]
        roots, issues = snapcheck.frame_roots(view, 0, g, cap["locals"])
        wroots, _ = snapcommon.watch_roots(view, cap, g)
        res = snapcheck.walk(view, roots + wroots, g, string_limit=ms, collection_limit=mc, strict_text=True)
        for iss in res.issues:
            if iss.code in ("collection-over-limit", "truncated-flag", "string-over-limit", "text-mismatch"):
                viol.append(V(iss.code, "%r limits %s" % (iss, tp["limits"])))
        # depth bound (frame variables are depth 1), frame part only
        fres = snapcheck.walk(view, roots, g, strict_text=False)
        if fres.max_depth > md:
            viol.append(V("depth-over-limit", "depth %d recorded with MAX_VAR_DEPTH=%d" % (fres.max_depth, md)))
        # breadth-first closure on the frame part: all real nodes shallower than the deepest recorded level present
        over_budget = view.duration_nanos / 1e6 > lim["MAX_TP_PROCESS_TIME"]
        if over_budget:
            k.probe("time_budget_exceeded")
            continue
        D = fres.max_depth
        missing_locals = [i for i in issues if i.code == "missing-local"]
        if D >= 2 and missing_locals:
            viol.append(V("bfs-local-crowded-out", "children recorded (depth %d) while locals %s are missing; "
                          "limits %s order %s" % (D, [m.path for m in missing_locals][:4], tp["limits"],
                                                  scenario["prog"]["opts"]["order"])))
        present_roots = [n for (_, n, _) in roots]
        levels, depth_of = snapcommon.ref_levels(g, present_roots, min(D, md), mc)
        for d, level in enumerate(levels, start=1):
            if d >= D:
                break
            for n in level:
                if n.serial not in fres.present:
                    viol.append(V("bfs-shallower-node-missing", "a %s at depth %d is absent while depth %d is "
                                  "recorded; limits %s order %s" % (n.tname, d, D, tp["limits"],
                                                                     scenario["prog"]["opts"]["order"])))
                    break
        if fres.cut or missing_locals or any(v_.truncated for v_ in view.var_lookup.values()):
            cut_seen += 1
    k.probe("snapshots_cut_by_a_limit", cut_seen)
    key = repr((scenario["prog"], scenario["tps"])) if cut_seen else None
    return common.result(k, snapcommon.dedup(viol), key=key)
