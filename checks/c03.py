"""C03 - trigger placement: actions fire at exactly the configured locations.

The whole agent is booted in the simulator and really installed as the trace function (through the trace seam);
generated host programs run on 1-3 simulated threads.  The recorder sees every event delivered to the agent and
attributes every agent effect (snapshot pushed / log / metric / span opened) to the event and thread that caused it.
"""
import random

import os
import sys

from simkit import common, hostgen, host, world, shims, kernel, linetrace, seams
from simkit.common import V
from simkit.refmodel import RefLimiter

ID = "C03"
LEVEL = "exploration"
BUDGET = {"quick": (3000, 35), "thorough": (1_000_000, 540)}
RULE = ("seeded host programs (calls, recursion, loops, try/except, generators, class/super chains, 1-3 threads) x "
        "seeded tracepoint sets (line and named-method tracepoints, snapshot/log/metric/span actions, several on one "
        "location, never-executed lines, wrong file names, a second file with the same base name, installed by the "
        "service, by register_tracepoint or directly, before the program or in mid-run) x seeded schedules; every "
        "delivered trace event is an oracle instance; non-trivial = a run in which at least one action fired; "
        "distinct = distinct (program, tracepoint set, firing pattern) keys")
COMPONENTS = {"real": ["whole Deep agent (start, plugins, poll, task handler, push, trigger handler)",
                       "CPython trace dispatch", "generated stubs + protobuf"],
              "stub": ["threads/clock/executor (simkit)", "gRPC channel + DEEP service", "recording plugins"]}
ASSUMPTIONS = ["the oracle quantifies over events delivered to the handler (a frame entered while no tracepoint "
               "was installed gets no line events from CPython)",
               "only base names and non-matching names are generated as tracepoint paths",
               "method tracepoints always carry method_name"]
TEXT = ("Seeded exploration: for every delivered trace event the set of actions the agent performed on that thread "
        "during that event must equal the set computed from the installed tracepoints by the statement's rule "
        "(line: event=='line' and file name and line equal; method: event=='call' and file and function name equal).")
NOTE = "Trusts the recorder's event attribution (per thread, between recorder call and return of trace_call)."
TECHNIQUE = "deterministic simulation: live trace hook under seeded scheduler, per-event reference oracle"

KINDS = ("snapshot", "snapshot", "log", "metric", "span", "snaplog", "all")


def _prog(pspec):
    r = random.Random(pspec["seed"] * 7919 + 13)   # not the scenario stream again
    return hostgen.gen_program(r, pspec["name"], nfuncs=pspec["nfuncs"])


CONC_SRC = "def walk(n):\n" + "".join("    probe(%d)\n" % i for i in range(1, 7)) + "    return n\n"


def generate(seed, tier):
    r = random.Random(seed)
    if r.random() < 0.12:
        # arm "two-files": two application threads, each walking through its own source file, with tracepoints in both
        # files - and a pre-emption point at every line of the agent's matching code. Whatever the matching keeps between
        # events is seen by both threads: every line with a tracepoint acts on every pass of its own thread, no other
        return {"arm": "two-files", "a": sorted(r.sample(range(1, 7), r.randrange(1, 4))),
                "b": sorted(r.sample(range(1, 7), r.randrange(0, 4))), "passes": r.choice((2, 3, 5)),
                "same_file": r.random() < 0.25,
                "knobs": common.race_knobs(r, stall_p=0.0, p_switch=r.choice((0.05, 0.15, 0.3)))}
    pspec = {"seed": seed, "name": "simhost_%d" % (seed % 7), "nfuncs": r.randrange(2, 6)}
    p = _prog(pspec)
    lines = p.stmt_lines(kinds=("assign", "stmt", "call", "return", "if", "loop", "raise", "yield"))
    funcs = [f for f in p.funcs if f not in ("tmain",)]
    tps = []
    n = r.choice((0, 1, 1, 2, 3, 5, 8))
    for i in range(n):
        tp = {"id": "tp%d" % i, "kind": r.choice(KINDS), "file": p.basename}
        k = r.random()
        if k < 0.65:
            tp["line"] = r.choice(lines)
            if tps and r.random() < 0.3 and "line" in tps[-1]:
                tp["line"] = tps[-1]["line"]   # several tracepoints on one location
            if r.random() < 0.3:
                tp["stage"] = r.choice(("line_start", "line_end", "line_capture"))
        elif k < 0.85:
            tp["method"] = r.choice(funcs)
            tp["line"] = r.choice(lines)
            if r.random() < 0.3:
                tp["stage"] = r.choice(("method_start", "method_end", "method_capture"))
        elif k < 0.93:
            tp["line"] = r.choice((1, 2, hostgen.PRELUDE_LINES + 1, len(p.lines) + 5, 0))   # never executed
        else:
            tp["line"] = r.choice(lines)
            tp["file"] = r.choice(("other.py", "simhost", p.basename + "x", "/simapp/" + p.basename, ""))
        tps.append(tp)
    src_gone = False
    if tps and r.random() < 0.15:
        # a bystander: a method tracepoint that names no method (what it should do is not demanded) - it finds its
        # function by reading the source of the frame, which may not be there (a deployment of compiled files only).
        # Whatever happens to it, the others act as if it were not there
        tps.append({"id": "tpN", "kind": "snapshot", "file": p.basename, "line": r.choice(lines), "nameless": True})
        src_gone = r.random() < 0.6
    nthreads = r.choice((1, 1, 2, 3))
    via = r.choice(("service", "service", "register", "direct", "service+register"))
    install = r.choice(("before", "before", "mid"))
    limits = None
    if nthreads == 1 and install == "before" and r.random() < 0.3:
        limits = {"fire_count": r.choice((1, 2, 3))}
    return {"prog": pspec, "tps": tps, "threads": [r.randrange(0, 3) for _ in range(nthreads)], "via": via,
            "install": install, "limits": limits, "src_gone": src_gone,
            "twin": r.random() < 0.25, "knobs": common.draw_knobs(r, stall_p=0.0)}


def shrink_candidates(s):
    if s.get("arm") == "two-files":
        if s["passes"] > 2:
            yield dict(s, passes=2)
        for key_ in ("a", "b"):
            for cand in common.drop_one(s[key_]):
                if cand or key_ == "b":
                    yield dict(s, **{key_: cand})
        return
    for cand in common.drop_one(s["tps"]):
        yield dict(s, tps=cand)
    if len(s["threads"]) > 1:
        for cand in common.drop_one(s["threads"]):
            yield dict(s, threads=cand)
    if s["twin"]:
        yield dict(s, twin=False)
    if s["install"] != "before":
        yield dict(s, install="before")


def tp_args(tp, limits):
    # placement isolated from limiting: unlimited count; a hugely negative period can never reject a hit (with
    # period 0 a hit is rejected when another thread's later-stamped hit was recorded first - that is C04's subject)
    args = {"fire_count": str(limits["fire_count"]) if limits else "-1", "fire_period": "0" if limits else "-100000000"}
    kind = tp["kind"]
    marker = "m_" + tp["id"]
    watches, metrics = [], []
    if tp.get("nameless"):
        args["stage"] = "method_start"
    if "method" in tp:
        args["method_name"] = tp["method"]
    if "stage" in tp:
        args["stage"] = tp["stage"]
    if kind in ("snapshot", "snaplog", "all"):
        watches = [repr(marker)]
    if kind in ("log", "snaplog", "all"):
        args["log_msg"] = marker
    if kind in ("log", "metric", "span"):
        args["snapshot"] = "no_collect"
    if kind in ("metric", "all"):
        metrics = [("metric", marker)]
    if kind in ("span", "all"):
        args["span"] = "line"
    return args, watches, metrics


def actions_of(kind):
    return {"snapshot": ("snapshot",), "log": ("log",), "metric": ("metric",), "span": ("span",),
            "snaplog": ("snapshot", "log"), "all": ("snapshot", "log", "metric", "span")}[kind]


def _two_files(s, ch):
    viol = []
    info = {"n": 0}

    def main(k):
        progs = []
        for nm in ("simwalk_a", "simwalk_a" if s["same_file"] else "simwalk_b"):
            p = hostgen.start_program(nm, prelude=False)
            for ln in CONC_SRC.strip("\n").split("\n"):
                p.lines.append(ln)
            p.finish()
            progs.append(p)
        w = world.World(k, cfg={"NO_TRACE": True}, python_plugin=False)
        w.start()
        handler = w.handler
        args = {"fire_count": "-1", "fire_period": "-100000000"}
        trig = [world.line_trigger("a%d" % i, progs[0].basename, 1 + i, args) for i in s["a"]]
        if not s["same_file"]:
            trig += [world.line_trigger("b%d" % i, progs[1].basename, 1 + i, args) for i in s["b"]]
        handler.new_config(trig)
        src = seams.SRC
        tracer = linetrace.LineTracer(k, (os.path.join(src, "deep/processor/trigger_handler.py"),
                                          os.path.join(src, "deep/api/tracepoint/trigger.py")))
        tracer.install()

        def probe(i):
            handler.trace_call(sys._getframe(1), "line", None)
        gs = [p.load({"probe": probe}) for p in progs]

        def walker(g):
            for n in range(s["passes"]):
                g["walk"](n)
                k.yield_point("walker")
        host.run_threads(k, [lambda: walker(gs[0]), lambda: walker(gs[1])], names=["walk_a", "walk_b"])
        tracer.uninstall()
        got = {}
        for (_, th, es) in w.pushed:
            got[(th, es.tracepoint.id)] = got.get((th, es.tracepoint.id), 0) + 1
        want = {}
        for i in s["a"]:
            want[("walk_a", "a%d" % i)] = s["passes"]
            if s["same_file"]:
                want[("walk_b", "a%d" % i)] = s["passes"]
        if not s["same_file"]:
            for i in s["b"]:
                want[("walk_b", "b%d" % i)] = s["passes"]
        info["n"] = sum(got.values())
        for key_ in sorted(set(got) | set(want)):
            if got.get(key_, 0) < want.get(key_, 0):
                viol.append(V("missing-snapshot-line:concurrent", "thread %s reached the line of %s %d times, it acted %d "
                              "times (tracepoints a%s / b%s, %s)" % (key_[0], key_[1], want[key_], got.get(key_, 0), s["a"],
                                                                      s["b"], "one file" if s["same_file"] else "two files")))
            elif got.get(key_, 0) > want.get(key_, 0):
                viol.append(V("spurious-snapshot-line:concurrent", "%s acted %d times in thread %s, its line was reached %d "
                              "times there" % (key_[1], got[key_], key_[0], want.get(key_, 0))))
        w.deep.shutdown()
        w.close()

    k = common.run_in_kernel(ch, s["knobs"], main)
    k.probe("concurrent_matches", info["n"])
    seen, vs = set(), []
    for v in viol:
        if v["sig"] not in seen:
            seen.add(v["sig"])
            vs.append(v)
    return common.result(k, vs, key=repr(("two-files", s["a"], s["b"], s["passes"], k.order_sig.hexdigest()[:8])))


def execute(scenario, ch):
    if scenario.get("arm") == "two-files":
        return _two_files(scenario, ch)
    viol = []
    info = {"fired": 0, "events": 0, "pattern": None}

    def main(k):
        from deep.api.tracepoint.tracepoint_config import MetricDefinition
        from deepproto.proto.tracepoint.v1 import tracepoint_pb2 as tpb
        p = _prog(scenario["prog"])
        w = world.World(k, plugins=[{"name": "RecAll", "kinds": ["logger", "metric", "span"]}], python_plugin=False)
        rec = host.Recorder(k).attach(w)
        rec.install()
        tps = scenario["tps"]
        limits = scenario["limits"]
        via = scenario["via"]
        svc_tps, reg_tps, direct = [], [], []
        for i, tp in enumerate(tps):
            how = via
            if via == "service+register":
                how = "service" if i % 2 == 0 else "register"
            (svc_tps if how == "service" else reg_tps if how == "register" else direct).append(tp)
        markers = []     # recorder seq at which the installed configuration changed
        orig_new = w.handler.new_config

        def new_config(cfg):
            # the marker is taken after the assignment (the call itself is traced and is a pre-emption point):
            # events that overlap the change are then judged leniently (spurious effects only)
            r_ = orig_new(cfg)
            markers.append(len(rec.events) + 1)
            k.log("install", len(cfg))
            return r_
        w.handler.new_config = new_config
        reg_ids = {}

        def install_all():
            if svc_tps:
                protos = []
                for tp in svc_tps:
                    args, watches, metrics = tp_args(tp, limits)
                    protos.append(w.service.make_tp(tp["id"], tp["file"], tp.get("line", 0), args, watches,
                                                    [tpb.Metric(name=m[1], type=tpb.MetricType.COUNTER) for m in metrics]))
                w.service.set_config(protos, "h1")
                w.deep.poll.poll()
            for tp in reg_tps:
                args, watches, metrics = tp_args(tp, limits)
                n0 = len(k.uuids)
                w.deep.register_tracepoint(tp["file"], tp.get("line", 0), args, watches,
                                           [MetricDefinition(m[1], "COUNTER") for m in metrics])
                me = k.me().name
                mine = [u for (t, u) in k.uuids[n0:] if t == me]
                for u in mine:   # the registering thread is itself traced: context ids are drawn in between
                    reg_ids[u] = tp["id"]
            if direct:
                from deep.api.tracepoint.trigger import build_trigger
                trig = []
                for tp in direct:
                    args, watches, metrics = tp_args(tp, limits)
                    t = build_trigger(tp["id"], tp["file"], tp.get("line", 0), args, watches,
                                      [MetricDefinition(m[1], "COUNTER") for m in metrics])
                    trig.append(t)
                w.handler.new_config(trig)
            k.settle()

        w.start()
        k.settle()
        if scenario["install"] == "before":
            install_all()
        g = p.load()
        if scenario.get("src_gone"):
            import linecache
            linecache.cache.pop(p.filename, None)
            k.fault("src_unavailable")
        twin_g = None
        if scenario["twin"]:
            # a second file with the same base name (and therefore the same line numbers) in another directory
            import linecache
            fn2 = "/simlib/" + p.basename
            linecache.cache[fn2] = (len(p.source), None, p.source.splitlines(True), fn2)
            twin_g = {"__name__": "simlib.twin"}
            exec(compile(p.source, fn2, "exec"), twin_g)
        outs = []
        fns = []
        for ti, n in enumerate(scenario["threads"]):
            out = []
            outs.append(out)
            gg = twin_g if (twin_g is not None and ti == len(scenario["threads"]) - 1) else g
            fns.append(lambda gg=gg, ti=ti, n=n, out=out: gg["tmain"](ti + 1, n, out))
        threads = [shims.SimThread(target=fn, name="app%d" % i) for i, fn in enumerate(fns)]
        for t in threads:
            t.start()
        if scenario["install"] == "mid":
            install_all()
        for t in threads:
            t.join()
        k.settle()
        n_markers_final = len(markers)
        # ------------------------------------------------------------------ oracle
        if rec.raised:
            viol.append(V("trace-call-raised:" + rec.raised[0][5], str(rec.raised[0])))
        by_marker = {"m_" + tp["id"]: tp["id"] for tp in tps}
        tpmap = {tp["id"]: tp for tp in tps}
        # epoch of each event = number of config changes seen before it; events during a change are lenient
        limiters = {}
        fired_pattern = []
        # capture stages: the snapshot is collected at the trigger and handed over when that line / invocation ends (which
        # event that is, is C15's subject): counted per tracepoint instead of per event, and its frame is the trigger's
        capture = {tp["id"] for tp in tps if tp.get("stage") in ("line_capture", "method_capture")}
        cap_got = {i_: 0 for i_ in capture}
        cap_want_strict = {i_: 0 for i_ in capture}
        cap_want_all = {i_: 0 for i_ in capture}
        mi = 0
        for (seq, tname, event, base, line, func, ser) in rec.events:
            while mi < len(markers) and markers[mi] <= seq:
                mi += 1
            eff = rec.effects.get(seq, [])
            got = set()
            for kind, tp_id, payload in eff:
                if kind == "span_close":
                    continue
                ident = None
                if kind == "snapshot":
                    ws = list(payload.tracepoint.watches)
                    for x in ws:
                        ident = by_marker.get(x.strip("'\""), ident)
                    if ident in capture:
                        cap_got[ident] += 1
                        tp_ = tpmap[ident]
                        f0 = payload.frames[0] if payload.frames else None
                        if f0 is not None and not (f0.file_name.endswith(tp_["file"]) and (
                                f0.method_name == tp_["method"] if "method" in tp_ else f0.line_number == tp_.get("line"))):
                            viol.append(V("capture-snapshot-top-frame-not-at-trigger", "%s: frame %s %s:%d" % (
                                tp_, f0.method_name, f0.file_name, f0.line_number)))
                        continue
                    if payload.frames and (payload.frames[0].line_number != line or
                                           not payload.frames[0].file_name.endswith(base)):
                        viol.append(V("snapshot-top-frame-not-at-event", "event %s:%d frame %s:%d" % (
                            base, line, payload.frames[0].file_name, payload.frames[0].line_number)))
                elif kind == "log":
                    msg = payload[0]
                    for mk, tid in by_marker.items():
                        if msg.endswith(mk):
                            ident = tid
                elif kind == "metric":
                    ident = by_marker.get(payload[2])
                elif kind == "span":
                    ident = tp_id if tp_id in tpmap else reg_ids.get(tp_id)
                if ident == "tpN":
                    continue          # the nameless bystander: not judged itself
                got.add((ident, kind))
                if ident is None:
                    viol.append(V("unattributable-%s" % kind, "event %s %s:%d effect %r" % (event, base, line, str(payload)[:100])))
            want = set()
            for tp in tps:
                if tp.get("nameless"):
                    continue
                if "method" in tp:
                    m = event == "call" and base == tp["file"] and func == tp["method"]
                else:
                    m = event == "line" and base == tp["file"] and line == tp.get("line")
                if not m:
                    continue
                for a in actions_of(tp["kind"]):
                    if limits:
                        lim = limiters.setdefault((tp["id"], a), RefLimiter(limits["fire_count"], 0))
                        if not lim.hit(seq):   # period 0: any increasing stamp will do
                            continue
                    if a == "snapshot" and tp["id"] in capture:
                        cap_want_all[tp["id"]] += 1
                        if mi >= n_markers_final:
                            cap_want_strict[tp["id"]] += 1
                        continue
                    want.add((tp["id"], a))
            info["events"] += 1
            if got:
                info["fired"] += len(got)
                fired_pattern.append((tname, event, line, tuple(sorted(got, key=str))))
            # while configuration changes are still landing an event may legitimately see an earlier (smaller)
            # configuration: there only spurious effects are violations
            if mi < n_markers_final:
                for g_ in sorted(got - want, key=str):
                    viol.append(V("spurious-%s-%s" % (g_[1], event), "at %s %s:%d %s got %s want %s" % (
                        event, base, line, func, sorted(got, key=str), sorted(want))))
                continue
            for g_ in sorted(got - want, key=str):
                viol.append(V("spurious-%s-%s" % (g_[1], event), "at %s %s:%d %s got %s want %s" % (
                    event, base, line, func, sorted(got, key=str), sorted(want))))
            for g_ in sorted(want - got):
                tp = tpmap[g_[0]]
                errs = rec.errors.get(seq, [])
                why = (":agent-error:%s" % errs[0][2]) if errs else ""
                viol.append(V("missing-%s-%s%s" % (g_[1], "method" if "method" in tp else "line", why),
                              "at %s %s:%d %s thread %s got %s want %s (tp %s) agent errors %s" % (
                                  event, base, line, func, tname, sorted(got, key=str), sorted(want), tp, errs[:2])))
        for i_ in sorted(capture):
            if not cap_want_strict[i_] <= cap_got[i_] <= cap_want_all[i_]:
                viol.append(V("missing-snapshot-capture" if cap_got[i_] < cap_want_strict[i_] else "spurious-snapshot-capture",
                              "%s: %d deferred snapshots handed over, %d..%d triggers" % (
                                  tpmap[i_], cap_got[i_], cap_want_strict[i_], cap_want_all[i_])))
            info["fired"] += cap_got[i_]
        # snapshots must also arrive at the service, once each
        sent = [s[2].tracepoint.ID for s in w.service.snapshots]
        pushed = len(w.pushed)
        if len(sent) != pushed:
            viol.append(V("pushed-not-delivered", "pushed %d delivered %d" % (pushed, len(sent))))
        info["pattern"] = fired_pattern[:40]
        k.log("fired", fired_pattern)
        k.probe("actions_fired", info["fired"])
        k.probe("events_checked", info["events"])
        k.probe("colocated_fired", sum(1 for f in fired_pattern if len({g_[0] for g_ in f[3]}) > 1))
        w.deep.shutdown()
        w.close()

    k = common.run_in_kernel(ch, scenario["knobs"], main)
    key = None
    if info["fired"]:
        key = repr((scenario["prog"], scenario["tps"], info["pattern"]))
    # de-duplicate repeated signatures
    seen, vs = set(), []
    for v in viol:
        if v["sig"] not in seen:
            seen.add(v["sig"])
            vs.append(v)
    return common.result(k, vs, key=key, sub=max(info["events"], 1))
