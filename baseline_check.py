#!/venv/bin/python
"""Run the repository's pinned suite (guard off: there are no hooks) and compare with /root/.vp/BASELINE.json."""
import json, subprocess, sys, xml.etree.ElementTree as ET, os, tempfile
base = json.load(open("/root/.vp/BASELINE.json"))
out = tempfile.mktemp(suffix=".xml", dir="/dev/shm" if os.path.isdir("/dev/shm") else None)
subprocess.run(["/venv/bin/python", "-m", "pytest", "-q", "-p", "no:cacheprovider", "--timeout=900",
                "--continue-on-collection-errors", "--junitxml=" + out], cwd="/repo", stdout=subprocess.DEVNULL,
               stderr=subprocess.DEVNULL)
passed = set()
for tc in ET.parse(out).getroot().iter("testcase"):
    if not list(tc):
        passed.add("%s::%s" % (tc.get("classname"), tc.get("name")))
os.unlink(out)
missing = [t for t in base["stable_pass"] if t not in passed]
print("baseline: %d of %d stable tests pass" % (len(base["stable_pass"]) - len(missing), len(base["stable_pass"])))
for m in missing:
    print("  MISSING", m)
sys.exit(1 if missing else 0)
