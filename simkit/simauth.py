"""Auth providers used by C08 (loaded by the agent through SERVICE_AUTH_PROVIDER)."""
from deep.api.auth import AuthProvider

CALLS = []


class FixedProvider(AuthProvider):
    def provide(self):
        CALLS.append("fixed")
        return [("x-api-key", "k-123"), ("x-tenant", "tenant one")]


class RotatingProvider(AuthProvider):
    def provide(self):
        CALLS.append("rot")
        return [("authorization", "Bearer token-%d" % len(CALLS))]


class FlakyProvider(AuthProvider):
    """Fails the first time it is asked (a transient token-fetch error), works afterwards."""

    def provide(self):
        CALLS.append("flaky")
        if CALLS.count("flaky") == 1:
            from simkit import kernel as _k
            k = _k.active()
            if k is not None:
                k.fault("auth_provider_raise")
            raise RuntimeError("token endpoint unavailable")
        return [("authorization", "Bearer recovered")]


class SlowProvider(AuthProvider):
    """Takes simulated time to answer the first time (other threads can ask meanwhile)."""

    def provide(self):
        CALLS.append("slow")
        from simkit import kernel as _k
        k = _k.active()
        if k is not None and CALLS.count("slow") == 1:
            k.fault("auth_provider_slow")
            k.sleep(0.4)
        return [("authorization", "Bearer slow-token")]
