"""Auth providers used by C08 (loaded by the agent through SERVICE_AUTH_PROVIDER)."""
from deep.api.auth import AuthProvider

CALLS = []


class FixedProvider(AuthProvider):
    def provide(self):
        CALLS.append("fixed")
        return [("x-api-key", "k-123"), ("x-tenant", "tenant one")]


class RotatingProvider(AuthProvider):
    def provide(self):
        CALLS.append("rot")
        return [("authorization", "Bearer token-%d" % len(CALLS))]
