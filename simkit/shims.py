"""Simulated stand-ins for threading / time / uuid / sys.settrace / ThreadPoolExecutor.

All of them delegate to the kernel of the run in progress (kernel.K) when called from a simulated thread and fall
back to the real thing otherwise, so they can stay installed in deep.* modules for the life of the process.
"""
import collections
import sys as _sys
import threading as _rt
import time as _rtime
import types
import uuid as _ruuid
from concurrent.futures import Future

from . import kernel as _k

SIMKIT_DIR = __file__.rsplit("/", 1)[0] + "/"


def _K():
    k = _k.K
    if k is not None and _k._get_ident() in k.by_real:
        return k
    return None


# ---------------------------------------------------------------------------------------------- time
class TimeShim:
    """Replacement for the ``time`` module inside deep.* modules: reads are pre-emption points."""

    def __getattr__(self, name):
        return getattr(_rtime, name)

    @staticmethod
    def time_ns():
        k = _K()
        if k is None:
            return _k._real_time_ns()
        return k.clock_ns()

    @staticmethod
    def time():
        k = _K()
        if k is None:
            return _k._real_time()
        return k.clock_ns() / 1e9

    @staticmethod
    def monotonic():
        k = _K()
        if k is None:
            return _k._real_monotonic()
        return k.clock_ns() / 1e9

    @staticmethod
    def sleep(s):
        k = _K()
        if k is None:
            return _k._real_sleep(s)
        k.sleep(s)


def _pw_time():
    k = _K()
    if k is None:
        return _k._real_time()
    return (k.now_ns + k.wall_offset) / 1e9


def _pw_time_ns():
    k = _K()
    if k is None:
        return _k._real_time_ns()
    return k.now_ns + k.wall_offset


def _pw_monotonic():
    k = _K()
    if k is None:
        return _k._real_monotonic()
    return k.now_ns / 1e9


def _pw_sleep(s):
    k = _K()
    if k is None:
        return _k._real_sleep(s)
    k.sleep(s)


def patch_process_time():
    """Backstop: any ``time.time()`` etc. reached from a simulated thread reads the simulated clock (no yield)."""
    _rtime.time = _pw_time
    _rtime.time_ns = _pw_time_ns
    _rtime.monotonic = _pw_monotonic
    _rtime.sleep = _pw_sleep


# ---------------------------------------------------------------------------------------------- locks
def _deadline(k, timeout):
    if timeout is None or timeout < 0:
        return None
    return k.now_ns + int(timeout * 1e9)


class SimLock:
    def __init__(self):
        self._owner = None
        self._real = None

    def _fallback(self):
        if self._real is None:
            self._real = _rt.Lock()
        return self._real

    def acquire(self, blocking=True, timeout=-1):
        k = _K()
        if k is None:
            return self._fallback().acquire(blocking, timeout)
        k.yield_point("lock")
        me = k.me()
        if self._owner is None:
            self._owner = me
            return True
        if not blocking:
            return False
        k.probe("lock_contended")
        if self._owner is me and (timeout is None or timeout < 0):
            k.declare_hang("self-deadlock: %s waits for a non-reentrant lock it holds itself" % me.name)
        dl = _deadline(k, timeout)
        while True:
            ok = k.block_until(lambda: self._owner is None, dl, why="lock")
            if not ok:
                return False
            if self._owner is None:
                self._owner = me
                return True

    def release(self):
        k = _K()
        if k is None:
            return self._fallback().release()
        if self._owner is None:
            raise RuntimeError("release unlocked lock")
        self._owner = None
        k.yield_point("unlock")

    def locked(self):
        return self._owner is not None

    __enter__ = acquire

    def __exit__(self, *a):
        self.release()


class SimRLock:
    def __init__(self):
        self._owner = None
        self._count = 0
        self._real = None

    def acquire(self, blocking=True, timeout=-1):
        k = _K()
        if k is None:
            if self._real is None:
                self._real = _rt.RLock()
            return self._real.acquire(blocking, timeout)
        me = k.me()
        if self._owner is me:
            self._count += 1
            return True
        k.yield_point("lock")
        if self._owner is None:
            self._owner = me
            self._count = 1
            return True
        if not blocking:
            return False
        dl = _deadline(k, timeout)
        while True:
            ok = k.block_until(lambda: self._owner is None, dl, why="rlock")
            if not ok:
                return False
            if self._owner is None:
                self._owner = me
                self._count = 1
                return True

    def release(self):
        k = _K()
        if k is None:
            return self._real.release()
        if self._owner is not k.me():
            raise RuntimeError("cannot release un-acquired lock")
        self._count -= 1
        if self._count == 0:
            self._owner = None
            k.yield_point("unlock")

    __enter__ = acquire

    def __exit__(self, *a):
        self.release()

    # used by Condition
    def _release_save(self):
        c = self._count
        self._count = 0
        self._owner = None
        return c

    def _acquire_restore(self, c):
        k = _K()
        me = k.me()
        while self._owner is not None:
            k.block_until(lambda: self._owner is None, None, why="rlock-restore")
        self._owner = me
        self._count = c

    def _is_owned(self):
        k = _K()
        return k is not None and self._owner is k.me()


class SimCondition:
    def __init__(self, lock=None):
        if lock is None:
            lock = SimRLock()
        self._lock = lock
        self.acquire = lock.acquire
        self.release = lock.release
        self._waiters = collections.deque()

    def __enter__(self):
        return self._lock.__enter__()

    def __exit__(self, *a):
        return self._lock.__exit__(*a)

    def wait(self, timeout=None):
        k = _K()
        if k is None:
            raise _k.HarnessError("SimCondition.wait outside simulation")
        token = [False]
        self._waiters.append(token)
        if isinstance(self._lock, SimRLock):
            saved = self._lock._release_save()
        else:
            self._lock.release()
            saved = None
        try:
            k.block_until(lambda: token[0], _deadline(k, timeout), why="cond")
        finally:
            if not token[0]:
                try:
                    self._waiters.remove(token)
                except ValueError:
                    pass
            if saved is not None:
                self._lock._acquire_restore(saved)
            else:
                self._lock.acquire()
        return token[0]

    def wait_for(self, predicate, timeout=None):
        k = _K()
        end = None if timeout is None else k.now_ns + int(timeout * 1e9)
        result = predicate()
        while not result:
            if end is not None:
                left = (end - k.now_ns) / 1e9
                if left <= 0:
                    break
                self.wait(left)
            else:
                self.wait(None)
            result = predicate()
        return result

    def notify(self, n=1):
        for _ in range(n):
            if not self._waiters:
                break
            self._waiters.popleft()[0] = True

    def notify_all(self):
        self.notify(len(self._waiters))


class SimEvent:
    def __init__(self):
        self._flag = False

    def is_set(self):
        return self._flag

    isSet = is_set

    def set(self):
        self._flag = True
        k = _K()
        if k is not None:
            k.yield_point("event-set")

    def clear(self):
        self._flag = False

    def wait(self, timeout=None):
        k = _K()
        if k is None:
            raise _k.HarnessError("SimEvent.wait outside simulation")
        if timeout is not None:
            timeout = timeout + 0  # TypeError for non-numbers, as the real one raises
        k.yield_point("event-wait")
        if self._flag:
            return True
        k.block_until(lambda: self._flag, _deadline(k, timeout if timeout is None else max(timeout, 0)), why="event")
        return self._flag


class SimSemaphore:
    def __init__(self, value=1):
        self._v = value

    def acquire(self, blocking=True, timeout=None):
        k = _K()
        k.yield_point("sem")
        if self._v > 0:
            self._v -= 1
            return True
        if not blocking:
            return False
        dl = _deadline(k, timeout)
        while True:
            if not k.block_until(lambda: self._v > 0, dl, why="sem"):
                return False
            if self._v > 0:
                self._v -= 1
                return True

    def release(self, n=1):
        self._v += n

    __enter__ = acquire

    def __exit__(self, *a):
        self.release()


# ---------------------------------------------------------------------------------------------- threads
class SimThread:
    """threading.Thread look-alike running on the kernel."""

    def __init__(self, group=None, target=None, name=None, args=(), kwargs=None, *, daemon=None):
        k = _K()
        if k is None:
            raise _k.HarnessError("SimThread created outside simulation")
        self._k = k
        self._target = target
        self._args = args
        self._kwargs = kwargs or {}
        if type(self).run is SimThread.run and target is not None:
            # call the target directly: no simulator frames (and their locals) between threading's and the host's
            self._rec = k.spawn(target, name=None, args=tuple(args), kwargs=dict(kwargs or {}), daemon=bool(daemon))
        else:
            self._rec = k.spawn(self._run_wrapper, name=None, daemon=bool(daemon))
        if name is not None:
            self._rec.name = str(name)
        self._rec.api = self
        self.daemon = bool(daemon)

    def _run_wrapper(self):
        self.run()

    def run(self):
        if self._target is not None:
            self._target(*self._args, **self._kwargs)

    def start(self):
        self._rec.daemon = self.daemon
        self._k.start(self._rec)
        self._k.yield_point("thread-start")

    def join(self, timeout=None):
        k = self._k
        rec = self._rec
        if rec.state == "new":
            raise RuntimeError("cannot join thread before it is started")
        k.block_until(lambda: rec.state == "done", _deadline(k, timeout), why="join")

    def is_alive(self):
        return self._rec.state in ("runnable", "blocked")

    @property
    def name(self):
        return self._rec.name

    @name.setter
    def name(self, v):
        self._rec.name = str(v)

    @property
    def ident(self):
        return self._rec.ident

    @property
    def native_id(self):
        return self._rec.ident

    def getName(self):
        return self._rec.name


class _MainThreadView:
    """What current_thread() returns for a simulated thread that was not created through SimThread."""

    def __init__(self, rec):
        self._rec = rec
        self.daemon = False

    @property
    def name(self):
        return self._rec.name

    @property
    def ident(self):
        return self._rec.ident

    def is_alive(self):
        return True

    def getName(self):
        return self._rec.name


#: threading.Thread._delete as the trace function of a real process sees it: a python frame of the thread that runs
#: (traced) AFTER the thread has taken itself out of the registry of running threads.  From there on
#: threading.current_thread() does not find the thread and makes up a _DummyThread, which it registers for good
_SIMLIB_THREADING = """
def _delete(self):
    "Remove current thread from the dict of currently running threads."
    self.deleted = True
    return None
"""
_simlib = {}
exec(compile(_SIMLIB_THREADING, "/simlib/threading.py", "exec"), _simlib)


#: concurrent/futures/thread.py as far as the trace function of a real process sees it while a task is handed to the pool
_SIMLIB_THREAD = """
def submit(make_future):
    f = make_future()
    return f
"""
_simlib_thread = {}
exec(compile(_SIMLIB_THREAD, "/simlib/thread.py", "exec"), _simlib_thread)


def thread_exit_hook(rec):
    """What a thread started through threading.Thread does after run() has returned."""
    if isinstance(getattr(rec, "api", None), SimThread):
        _simlib["_delete"](rec)


def sim_current_thread():
    k = _K()
    if k is None:
        return _rt.current_thread()
    rec = k.me()
    if getattr(rec, "deleted", False) and rec.name not in k.dummy_threads:
        k.dummy_threads.append(rec.name)
    api = getattr(rec, "api", None)
    if api is None:
        api = rec.api = _MainThreadView(rec)
    return api


def sim_get_ident():
    k = _K()
    if k is None:
        return _rt.get_ident()
    return k.me().ident


# ---------------------------------------------------------------------------------------------- tracing seam
class TraceSeam:
    """Owns sys.settrace/threading.settrace as seen by deep.*: installs a filtering wrapper around the agent's
    function so that simulator-internal frames (which stand for C code in production) are not traced, and lets the
    recorder see every delivered event."""

    def __init__(self):
        self.wrappers = {}
        self.recorder = None      # callable(frame, event, arg) called before the agent's function
        self.on_raise = None      # callable(frame, event, arg, exc): the agent's function raised
        self.post = None          # callable(frame, event, arg, result)
        self.hidden = (SIMKIT_DIR,)
        # Only host-program files and deep.* are shown to the agent.  Frames of the standard library and of
        # third-party packages are hidden: which of them execute depends on process-global caches (logging's level
        # cache, importlib, lru_caches), so tracing them would make the number of clock reads - and with it the
        # schedule - depend on what ran earlier in the process.  set by seams.install().
        self.visible = ("/simapp/", "/simlib/")

    def wrap(self, fn):
        """Wrapper to install in place of fn.  It follows CPython's protocol: the function installed with settrace
        gets the 'call' events; what it returns becomes that frame's local trace function and gets the frame's
        other events; what a local trace function returns replaces it (None keeps it)."""
        if fn is None:
            return None
        key = self._key(fn)
        w = self.wrappers.get(key)
        if w is not None and w.inner == fn:
            return w
        w = self._make(fn)
        self.wrappers[key] = w
        return w

    @staticmethod
    def _key(fn):
        return id(getattr(fn, "__self__", fn)), getattr(fn, "__name__", "")

    def _make(self, fn):
        seam = self

        def sim_trace_wrapper(frame, event, arg):
            if not frame.f_code.co_filename.startswith(seam.visible):
                return None
            rec = seam.recorder
            if rec is not None:
                rec(frame, event, arg)
            try:
                r = fn(frame, event, arg)
            except BaseException as e:  # noqa
                if isinstance(e, _k.SimKilled):
                    raise
                h = seam.on_raise
                if h is not None:
                    # CPython would now raise e in the traced code and switch tracing off for the thread; the harness
                    # records that as a violation and keeps tracing so that the rest of the run stays observable
                    h(frame, event, arg, e)
                    return sim_trace_wrapper
                raise
            p = seam.post
            if p is not None:
                p(frame, event, arg, r)
            if r is None:
                # for a 'call' event: the frame is not traced; for the others CPython keeps the current function
                return None if event == "call" else sim_trace_wrapper
            if r == fn:
                return sim_trace_wrapper
            # the agent handed back a different function for this frame: that one gets the frame's next events
            key = seam._key(r)
            w2 = seam.wrappers.get(key)
            if w2 is None or w2.inner != r:
                w2 = seam._make(r)
                seam.wrappers[key] = w2
            return w2

        sim_trace_wrapper.inner = fn
        return sim_trace_wrapper

    @staticmethod
    def unwrap(fn):
        return getattr(fn, "inner", fn)


TRACE_SEAM = TraceSeam()


class SysShim:
    def __getattr__(self, name):
        return getattr(_sys, name)

    @staticmethod
    def settrace(fn):
        _sys.settrace(TRACE_SEAM.wrap(fn))

    @staticmethod
    def gettrace():
        return TRACE_SEAM.unwrap(_sys.gettrace())


class ThreadingShim:
    """Replacement for the ``threading`` module inside deep.* modules and concurrent.futures._base."""

    Thread = SimThread
    Lock = SimLock
    RLock = SimRLock
    Condition = SimCondition
    Event = SimEvent
    Semaphore = SimSemaphore
    BoundedSemaphore = SimSemaphore
    current_thread = staticmethod(sim_current_thread)
    currentThread = staticmethod(sim_current_thread)
    get_ident = staticmethod(sim_get_ident)

    def __getattr__(self, name):
        return getattr(_rt, name)

    @staticmethod
    def settrace(fn):
        _rt.settrace(TRACE_SEAM.wrap(fn))

    @staticmethod
    def gettrace():
        return TRACE_SEAM.unwrap(_rt.gettrace())

    @property
    def _trace_hook(self):
        return TRACE_SEAM.unwrap(_rt._trace_hook)

    @staticmethod
    def main_thread():
        return _rt.main_thread()

    @staticmethod
    def _register_atexit(*a, **kw):
        return None


# ---------------------------------------------------------------------------------------------- executor
class SimExecutor:
    """Mirror of concurrent.futures.ThreadPoolExecutor (FIFO queue, lazy worker start, BaseException capture in
    the work item) on simulated threads.  The Future objects are the real ones (running on SimCondition)."""

    _counter = 0

    def __init__(self, max_workers=None, thread_name_prefix="", initializer=None, initargs=()):
        if max_workers is None:
            max_workers = 5
        if max_workers <= 0:
            raise ValueError("max_workers must be greater than 0")
        self._max = max_workers
        self._q = collections.deque()
        self._workers = []
        self._idle = 0
        self._shutdown = False
        SimExecutor._counter += 1
        self._prefix = thread_name_prefix or "pool"

    def submit(self, fn, /, *args, **kwargs):
        k = _K()
        if k is None:
            raise _k.HarnessError("SimExecutor.submit outside simulation")
        if self._shutdown:
            raise RuntimeError("cannot schedule new futures after shutdown")
        # (ThreadPoolExecutor.submit is python code of the standard library: the trace function of a real process sees it -
        # here one stand-in frame, "thread.py", in which the future is made)
        f = _simlib_thread["submit"](Future)
        self._q.append((f, fn, args, kwargs))
        if self._idle == 0 and len(self._workers) < self._max:
            t = SimThread(target=self._worker, name="%s-%d" % (self._prefix, len(self._workers)), daemon=True)
            self._workers.append(t)
            t.start()
        else:
            k.yield_point("submit")
        return f

    def _worker(self):
        k = _K()
        while True:
            self._idle += 1
            try:
                k.block_until(lambda: self._q or self._shutdown, None, why="pool-idle")
            finally:
                self._idle -= 1
            if not self._q:
                return
            f, fn, args, kwargs = self._q.popleft()
            if not f.set_running_or_notify_cancel():
                continue
            try:
                result = fn(*args, **kwargs)
            except _k.SimKilled:
                raise
            except BaseException as exc:  # same as _WorkItem.run
                f.set_exception(exc)
            else:
                f.set_result(result)
            del f, fn, args, kwargs

    def shutdown(self, wait=True, *, cancel_futures=False):
        self._shutdown = True
        if cancel_futures:
            while self._q:
                self._q.popleft()[0].cancel()
        if wait:
            for t in self._workers:
                t.join()

    def __enter__(self):
        return self

    def __exit__(self, *a):
        self.shutdown(wait=True)
        return False


# ---------------------------------------------------------------------------------------------- ids
class UuidShim:
    """uuid module stand-in: uuid4() is drawn from the run's seeded 'uuid' stream."""

    def __getattr__(self, name):
        return getattr(_ruuid, name)

    @staticmethod
    def uuid4():
        k = _k.K
        if k is None:
            return _ruuid.uuid4()
        u = _ruuid.UUID(int=k.ch.rng("uuid").getrandbits(128), version=4)
        me = k.me()
        k.uuids.append((me.name if me is not None else "?", str(u)))
        return u


TIME = TimeShim()
THREADING = ThreadingShim()
SYS = SysShim()
UUID = UuidShim()
