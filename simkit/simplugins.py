"""Recording / fault-injecting implementations of the agent's public plugin interfaces, generated from specs."""
import sys

from . import kernel as _k

#: sink of the run in progress
SINK = None
_defined = {}


class PluginFault(Exception):
    """Injected failure inside a plugin callback."""


class PluginFaultBase(BaseException):
    """Injected non-Exception failure inside a plugin callback."""


class BadOrder(int):
    """An order value that is a number by type and cannot be compared."""

    def _no(self, other):
        raise PluginFault("order value that cannot be compared")
    __lt__ = __gt__ = __le__ = __ge__ = _no


class Sink:
    def __init__(self, k):
        self.k = k
        self.calls = []       # (seq, plugin, callback, thread, payload)
        self.counts = {}      # (plugin, callback) -> n
        self.faults = {}      # plugin -> {callback: set(indexes) | 'all'} ; exc kind in faults_exc
        self.faults_exc = {}
        self.spans = []       # dict per span: plugin,name,ctx,tp,open_thread,open_seq,close_thread,close_seq,closes
        self.total_calls = 0
        self.global_fault_at = None   # (call number overall, exc kind) for enumeration
        self.fired = []
        self.stale = []       # (plugin, callback) invoked on an instance after its shutdown()

    def enter(self, plugin, cb, payload=None):
        k = _k.active()
        tname = k.me().name if k else "?"
        n = self.counts.get((plugin, cb), 0)
        self.counts[(plugin, cb)] = n + 1
        self.total_calls += 1
        seq = len(self.calls)
        self.calls.append((seq, plugin, cb, tname, payload))
        if k is not None:
            k.log("plugin", plugin, cb, tname)
        exc = None
        f = self.faults.get(plugin, {}).get(cb)
        if f is not None and (f == "all" or n in f):
            exc = self.faults_exc.get(plugin, "Exception")
        g = self.global_fault_at
        if g is not None and g[0] == self.total_calls:
            exc = g[1]
        if exc is not None:
            if k is not None:
                k.fault("plugin_raise")
            self.fired.append((plugin, cb, n))
            if exc == "Base":
                raise PluginFaultBase("%s.%s#%d" % (plugin, cb, n))
            if exc == "Refused":
                # what a plugin gets that tidies up after the task handler was closed (e.g. unregisters a tracepoint in its
                # shutdown): the agent's own refusal, which is not an Exception
                from deep.task import IllegalStateException
                raise IllegalStateException("%s.%s#%d" % (plugin, cb, n))
            raise PluginFault("%s.%s#%d" % (plugin, cb, n))
        if k is not None:
            k.yield_point("plugin")
        return seq


class RecSpan:
    def __init__(self, sink, plugin, name, ctx, tp, seq):
        k = _k.active()
        self.sink = sink
        self.rec = {"plugin": plugin, "name": name, "ctx": ctx, "tp": tp, "open_thread": k.me().name if k else "?",
                    "open_seq": seq, "closes": [], "open_ns": k.now_ns if k else 0}
        sink.spans.append(self.rec)

    name = property(lambda self: self.rec["name"])
    trace_id = property(lambda self: "t")
    span_id = property(lambda self: "s%d" % self.rec["open_seq"])

    def add_attribute(self, key, value):
        pass

    def add_event(self, name, attributes=None):
        pass

    def close(self):
        k = _k.active()
        seq = self.sink.enter(self.rec["plugin"], "span_close", (self.rec["name"], self.rec["open_seq"]))
        self.rec["closes"].append((k.me().name if k else "?", seq, k.now_ns if k else 0))


def define(spec):
    """Create (or reuse) a plugin class for spec; return its dotted name for the PLUGINS setting."""
    from deep.api.plugin import Plugin, ResourceProvider, SnapshotDecorator, TracepointLogger
    from deep.api.plugin.metric import MetricProcessor
    from deep.api.plugin.span import SpanProcessor
    from deep.api.resource import Resource
    from deep.api.attributes import BoundedAttributes
    name = spec["name"]
    kinds = spec.get("kinds", [])
    bases = []
    if "resource" in kinds:
        bases.append(ResourceProvider)
    if "decorator" in kinds:
        bases.append(SnapshotDecorator)
    if "logger" in kinds:
        bases.append(TracepointLogger)
    if "metric" in kinds:
        bases.append(MetricProcessor)
    if "span" in kinds:
        bases.append(SpanProcessor)
    if not bases:
        bases.append(Plugin)
    pname = name

    def _E(self, cb, payload=None):
        # a callback on an instance whose shutdown() has been called: the agent kept a plugin of an earlier life
        if getattr(self, "_dead", False):
            SINK.stale.append((pname, cb))
        return SINK.enter(pname, cb, payload)

    def __init__(self, config=None):
        self._dead = False
        SINK.enter(pname, "__init__")
        Plugin.__init__(self, name=None, config=config)
        self._own_reg = None
        if spec.get("own_tp"):
            # a plugin that brings its own tracepoint: registered when it is constructed, removed in its shutdown
            self._own_cfg = config
            self._own_reg = config.tracepoints.add_custom("simplug_own.py", 1, {}, [], [])

    def is_active(self):
        _E(self, "is_active")
        if "active" in spec:
            return spec["active"]
        return Plugin.is_active(self)

    def order(self):
        _E(self, "order")
        o = spec.get("order", 0)
        if o == "@nan":
            return float("nan")
        if o == "@badint":
            return BadOrder(0)      # (0: its numeric value and the default order coincide)
        return o

    def shutdown(self):
        SINK.enter(pname, "shutdown")
        self._dead = True
        if self._own_reg is not None:
            reg, self._own_reg = self._own_reg, None
            self._own_cfg.tracepoints.remove_custom(reg)

    ns = {"__init__": __init__, "is_active": is_active, "order": order, "shutdown": shutdown, "spec": spec}

    if "resource" in kinds:
        def resource(self):
            _E(self, "resource")
            attrs = spec.get("resource")
            if attrs is None:
                return None
            return Resource(dict(attrs))
        ns["resource"] = resource
    if "decorator" in kinds:
        def decorate(self, snapshot_id, context):
            _E(self, "decorate", snapshot_id)
            attrs = spec.get("decorate")
            if attrs is None:
                return None
            return BoundedAttributes(attributes=dict(attrs))
        ns["decorate"] = decorate
    if "logger" in kinds:
        def log_tracepoint(self, log_msg, tp_id, ctx_id):
            _E(self, "log_tracepoint", (log_msg, tp_id, ctx_id))
        ns["log_tracepoint"] = log_tracepoint
    if "metric" in kinds:
        def _mk(kind):
            def m(self, name, labels, namespace, help_string, unit, value):
                _E(self, kind, (name, dict(labels) if labels is not None else None, namespace,
                                help_string, unit, value))
                if spec.get("label_vandal") and isinstance(labels, dict):
                    # a processor that adapts the labels to its backend in place (a constant label, keys renamed)
                    for key in list(labels):
                        labels[key.replace("l", "L")] = labels.pop(key)
                    labels["source"] = "vandal"
            m.__name__ = kind
            return m
        for kind in ("counter", "gauge", "histogram", "summary"):
            ns[kind] = _mk(kind)
    if "span" in kinds:
        def create_span(self, name, context_id, tracepoint_id):
            seq = _E(self, "create_span", (name, context_id, tracepoint_id))
            if spec.get("span_none"):
                return None
            return RecSpan(SINK, pname, name, context_id, tracepoint_id, seq)

        def current_span(self):
            return None
        ns["create_span"] = create_span
        ns["current_span"] = current_span
    if spec.get("falsy"):
        # a plugin object that is an (empty) container: its truth value says nothing about its being there
        ns["__len__"] = lambda self: 0
    cls = type(name, tuple(bases), ns)
    cls.__module__ = __name__
    setattr(sys.modules[__name__], name, cls)
    return "%s.%s" % (__name__, name)
