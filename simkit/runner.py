"""Batch runner, worker protocol, shrinking, replay, known findings, evidence."""
import hashlib
import importlib
import json
import os
import subprocess
import sys
import time

VERIF = os.path.dirname(os.path.dirname(os.path.abspath(__file__)))
PY = sys.executable
NPROC = int(os.environ.get("VERIF_PROCS", "16"))


def load_check(cid):
    return importlib.import_module("checks.%s" % cid.lower())


def h64(s):
    return hashlib.sha256(s.encode("utf-8", "backslashreplace")).hexdigest()[:16]


# ------------------------------------------------------------------------------------------------ one run
def run_one(mod, seed, tier, scenario=None, trace=None):
    """Generate (or take) a scenario, execute it, return the result dict (+ scenario and trace)."""
    from . import kernel
    if scenario is None:
        scenario = mod.generate(seed, tier)
    ch = kernel.Choices(seed, trace)
    res = mod.execute(scenario, ch)
    res["seed"] = seed
    res["scenario"] = scenario
    res["trace"] = ch.trace if trace is None else ch.used_trace()
    return res


def sigs_of(res):
    return sorted({v["sig"] for v in res.get("violations", [])})


# ------------------------------------------------------------------------------------------------ shrinking
def _ddmin_list(items, test, max_tests=400):
    """Classic ddmin over a list; test(list)->bool (True = still fails)."""
    n = 2
    tests = 0
    items = list(items)
    while len(items) >= 1 and tests < max_tests:
        chunk = max(1, len(items) // n)
        reduced = False
        for i in range(0, len(items), chunk):
            cand = items[:i] + items[i + chunk:]
            tests += 1
            if test(cand):
                items = cand
                n = max(n - 1, 2)
                reduced = True
                break
            if tests >= max_tests:
                break
        if not reduced:
            if chunk == 1:
                break
            n = min(len(items), n * 2)
    return items


def shrink(mod, res, sig, wall_budget=120.0):
    """Minimise (scenario, trace) while the same violation signature persists."""
    t0 = time.time()
    seed = res["seed"]
    tier = res.get("tier", "quick")
    best_s = res["scenario"]
    best_t = res["trace"]
    runs = [0]

    def fails(s, t):
        if time.time() - t0 > wall_budget:
            return False
        runs[0] += 1
        try:
            r = run_one(mod, seed, tier, scenario=s, trace=t)
        except Exception:  # a candidate that breaks the harness is not a smaller failing case
            return False
        return sig in sigs_of(r)

    if not fails(best_s, best_t):
        return best_s, best_t, {"shrink_runs": runs[0], "reproduced": False}
    # 1. fault / schedule trace: first whole streams, then entries
    for stream in sorted(best_t.keys()):
        cand = {k: v for k, v in best_t.items() if k != stream}
        if fails(best_s, cand):
            best_t = cand
    for stream in sorted(best_t.keys()):
        entries = sorted(best_t[stream].items(), key=lambda kv: (len(kv[0]), kv[0]))

        def test(lst, stream=stream):
            cand = dict(best_t)
            cand[stream] = dict(lst)
            return fails(best_s, cand)
        kept = _ddmin_list(entries, test)
        best_t = dict(best_t)
        best_t[stream] = dict(kept)
    # 2. workload, by the check's own candidate generator
    shr = getattr(mod, "shrink_candidates", None)
    if shr is not None:
        improved = True
        while improved and time.time() - t0 < wall_budget:
            improved = False
            for cand in shr(best_s):
                if fails(cand, best_t):
                    best_s = cand
                    improved = True
                    break
    return best_s, best_t, {"shrink_runs": runs[0], "reproduced": True}


# ------------------------------------------------------------------------------------------------ known findings
def load_known(path=None):
    path = path or os.path.join(VERIF, "known_findings.txt")
    known = []
    if not os.path.exists(path):
        return known
    for line in open(path):
        line = line.strip()
        if not line or line.startswith("#") or line.startswith("fixed:"):
            continue
        if line.startswith("finding:"):
            parts = line[len("finding:"):].strip().split(None, 2)
            d = {}
            for p in parts[:2]:
                if "=" in p:
                    a, b = p.split("=", 1)
                    d[a] = b
            d["text"] = parts[2] if len(parts) > 2 else ""
            if "property" in d and "sig" in d:
                known.append(d)
    return known


def is_known(known, cid, sig):
    for kf in known:
        if kf["property"] == cid and kf["sig"] == sig:
            return kf
    return None


# ------------------------------------------------------------------------------------------------ worker
def worker_main(argv):
    cid, tier, base_seed, start, stride, count, wall = argv[0], argv[1], int(argv[2]), int(argv[3]), int(argv[4]), \
        int(argv[5]), float(argv[6])
    import faulthandler
    faulthandler.enable()
    try:  # baton passing is a same-core context switch when all threads of a worker share one CPU
        cpus = sorted(os.sched_getaffinity(0))
        os.sched_setaffinity(0, {cpus[start % len(cpus)]})
    except (AttributeError, OSError):
        pass
    mod = load_check(cid)
    t0 = time.time()
    out = sys.stdout
    n = 0
    exhausted = True
    for i in range(start, count, stride):
        if time.time() - t0 > wall:
            exhausted = False
            break
        seed = base_seed * 1_000_000 + i
        faulthandler.dump_traceback_later(240, exit=True)
        try:
            res = run_one(mod, seed, tier)
        except BaseException as e:  # harness error: reported apart from violations
            import traceback
            out.write(json.dumps({"seed": seed, "harness_error": "%s: %s" % (type(e).__name__, e),
                                  "tb": traceback.format_exc()[-1500:]}) + "\n")
            out.flush()
            continue
        finally:
            faulthandler.cancel_dump_traceback_later()
        n += 1
        rec = {"seed": seed, "sigs": sigs_of(res), "faults": res.get("faults", {}), "probes": res.get("probes", {}),
               "sim_ns": res.get("sim_ns", 0), "steps": res.get("steps", 0), "digest": res.get("digest", ""),
               "key": res.get("key"), "order": res.get("order", ""), "sub": res.get("sub", 1)}
        if rec["sigs"]:
            rec["viol"] = [{"sig": v["sig"], "detail": str(v.get("detail", ""))[:600]}
                           for v in res["violations"]][:6]
        if n <= 2 and start == 0:
            rec["sample"] = res["scenario"]
        out.write(json.dumps(rec, default=str) + "\n")
        out.flush()
    out.write(json.dumps({"done": True, "runs": n, "exhausted": exhausted}) + "\n")
    out.flush()


def _spawn(args, env_extra=None, timeout=None):
    env = dict(os.environ)
    env["PYTHONHASHSEED"] = env.get("VERIF_HASHSEED", "0")
    env["PYTHONPATH"] = os.path.join(os.environ.get("VERIF_REPO", "/repo"), "src") + os.pathsep + VERIF
    if env_extra:
        env.update(env_extra)
    return subprocess.Popen([PY, "-X", "faulthandler", "-m", "simkit.cli"] + args, cwd=VERIF, env=env,
                            stdout=subprocess.PIPE, stderr=subprocess.PIPE, text=True)


# ------------------------------------------------------------------------------------------------ batch
def run_batch(cid, tier, base_seed, count, wall, nproc=None):
    """Run seeds 0..count-1 (until wall seconds are used) over nproc worker processes; aggregate."""
    nproc = nproc or NPROC
    t0 = time.time()
    procs = []
    for w in range(nproc):
        p = _spawn(["--worker", cid, tier, str(base_seed), str(w), str(nproc), str(count), str(wall)])
        procs.append(p)
    agg = {"runs": 0, "faults": {}, "probes": {}, "sim_ns": 0, "steps": 0, "digests": set(), "keys": set(),
           "orders": set(), "viol": {}, "harness": [], "samples": [], "done": 0, "sub": 0}
    hard = wall + 120
    import threading
    outs = [None] * len(procs)

    def drain(i, p):
        try:
            outs[i] = p.communicate(timeout=hard)
        except subprocess.TimeoutExpired:
            p.kill()
            so, se = p.communicate()
            outs[i] = (so, se + "\nHARNESS worker wall timeout")
    readers = [threading.Thread(target=drain, args=(i, p), daemon=True) for i, p in enumerate(procs)]
    for t in readers:
        t.start()
    for t in readers:
        t.join()
    for i, p in enumerate(procs):
        so, se = outs[i] or ("", "no output")
        if "HARNESS worker wall timeout" in se:
            agg["harness"].append({"error": "worker wall timeout", "stderr": se[-800:]})
        if p.returncode not in (0, None):
            agg["harness"].append({"error": "worker exit %s" % p.returncode, "stderr": se[-1500:]})
        for line in so.splitlines():
            if not line.startswith("{"):
                continue
            try:
                r = json.loads(line)
            except ValueError:
                continue
            if r.get("done"):
                if r.get("exhausted"):
                    agg["done"] += 1
                continue
            if "harness_error" in r:
                agg["harness"].append(r)
                continue
            agg["runs"] += 1
            agg["sub"] += r.get("sub", 1)
            for k, v in r["faults"].items():
                agg["faults"][k] = agg["faults"].get(k, 0) + v
            for k, v in r["probes"].items():
                agg["probes"][k] = agg["probes"].get(k, 0) + v
            agg["sim_ns"] += r["sim_ns"]
            agg["steps"] += r["steps"]
            agg["digests"].add(r["digest"][:16])
            if r.get("key"):
                agg["keys"].add(h64(str(r["key"])))
            if r.get("order"):
                agg["orders"].add(r["order"][:16])
            if "sample" in r and len(agg["samples"]) < 3:
                agg["samples"].append(r["sample"])
            for v in r.get("viol", []):
                e = agg["viol"].setdefault(v["sig"], {"seeds": [], "detail": v["detail"], "n": 0})
                e["n"] += 1
                if len(e["seeds"]) < 5:
                    e["seeds"].append(r["seed"])
    agg["wall"] = time.time() - t0
    return agg


def shrink_and_confirm(cid, tier, seed, sig, history=None):
    """In a fresh process: re-run seed, shrink, write the replay file; then confirm it in another fresh process."""
    path = os.path.join(VERIF, "replays", "%s-%d-%s.json" % (cid, seed, h64(sig)[:8]))
    if os.path.exists(path):
        os.remove(path)
    if history:
        p = _spawn(["--shrink", cid, tier, str(seed), sig, path, ",".join(map(str, history))])
    else:
        p = _spawn(["--shrink", cid, tier, str(seed), sig, path])
    try:
        so, se = p.communicate(timeout=400)
    except subprocess.TimeoutExpired:
        p.kill()
        so, se = p.communicate()
    if not os.path.exists(path):
        return None, "shrink failed: %s %s" % (so[-300:], se[-800:])
    p = _spawn(["--replay", path])
    try:
        so, se = p.communicate(timeout=200)
    except subprocess.TimeoutExpired:
        p.kill()
        return None, "replay timed out"
    if p.returncode == 1 and "REPRODUCED" in so:
        return path, None
    return None, "replay did not reproduce: rc=%s %s %s" % (p.returncode, so[-300:], se[-500:])


def write_evidence(cid, mod, tier, base_seed, agg, extra_assumptions=()):
    level = getattr(mod, "LEVEL", "exploration")
    hours = max(agg["wall"], 1e-6) / 3600.0
    cov = {
        "evaluations": agg["sub"] if agg["sub"] > agg["runs"] else agg["runs"],
        "simulated_runs": agg["runs"],
        "distinct_nontrivial": len(agg["keys"]),
        "rule": getattr(mod, "RULE", ""),
        "samples": agg["samples"][:3] or ["(no sample captured)"],
        "runs_per_hour": int(agg["runs"] / hours),
        "seeds": [base_seed * 1_000_000, base_seed * 1_000_000 + max(agg["runs"] - 1, 0)],
        "simulated_time_s": round(agg["sim_ns"] / 1e9, 3),
        "scheduler_steps": agg["steps"],
        "distinct_executions_by_event_log_digest": len(agg["digests"]),
        "distinct_interleavings_by_thread_order_signature": len(agg["orders"]),
        "faults_fired": agg["faults"],
        "probes": agg["probes"],
        "components": getattr(mod, "COMPONENTS", {}),
        "harness_errors": len(agg["harness"]),
        "exhaustive": bool(getattr(mod, "EXHAUSTIVE", False) and agg.get("exhausted_all")),
    }
    ev = {"property_id": cid, "tier": tier, "seed": base_seed, "level": level, "coverage": cov,
          "assumptions": list(getattr(mod, "ASSUMPTIONS", [])) + list(extra_assumptions),
          "wall_s": round(agg["wall"], 2),
          "violations": sum(1 for s in agg["viol"] if not agg["viol"][s].get("known"))}
    if os.path.realpath(os.environ.get("VERIF_REPO", "/repo")) != "/repo":
        # a scratch tree (a seeded change, a reverted repair): what is committed as evidence comes from /repo itself
        return ev
    os.makedirs(os.path.join(VERIF, "evidence"), exist_ok=True)
    with open(os.path.join(VERIF, "evidence", "%s.json" % cid), "w") as f:
        json.dump(ev, f, indent=1, default=str)
    return ev


def check_main(cid, tier):
    """The registered command: exit 0 held / 1 violation / 2 harness error."""
    mod = load_check(cid)
    base_seed = int(os.environ.get("VERIF_SEED", "0"))
    budget = getattr(mod, "BUDGET", {"quick": (4000, 40), "thorough": (400000, 540)})[tier]
    count, wall = budget
    if os.environ.get("VERIF_COUNT"):
        count = int(os.environ["VERIF_COUNT"])
    if os.environ.get("VERIF_WALL"):
        wall = float(os.environ["VERIF_WALL"])
    print("check %s tier=%s VERIF_SEED=%d count<=%d wall<=%ss procs=%d repo=%s" % (
        cid, tier, base_seed, count, wall, NPROC, os.environ.get("VERIF_REPO", "/repo")))
    sys.stdout.flush()
    agg = run_batch(cid, tier, base_seed, count, wall)
    agg["exhausted_all"] = agg["done"] == NPROC and not agg["harness"]
    known = load_known()
    rc = 0
    reported = []
    for sig, e in sorted(agg["viol"].items()):
        kf = is_known(known, cid, sig)
        if kf is not None:
            e["known"] = True
            continue
        reported.append((sig, e))
    for kf in known:
        if kf["property"] != cid:
            continue
        e = agg["viol"].get(kf["sig"])
        how = "reproduced in %d runs, e.g. seed %d" % (e["n"], e["seeds"][0]) if e else "not reached by this run's seeds"
        print("KNOWN-FINDING: property=%s %s (%s) %s" % (cid, kf["sig"], how, kf.get("text", "")))
    for sig, e in reported[:3]:
        path, err = None, None
        for seed_ in e["seeds"][:3]:
            path, err = shrink_and_confirm(cid, tier, seed_, sig)
            if path is not None:
                break
        if path is None:
            # not reproducible from a fresh process: the violation may need state the code under test carries over from
            # earlier runs in the same process (a process-wide cache): replay it with the runs that came before it
            i_ = e["seeds"][0] - base_seed * 1_000_000
            history = [base_seed * 1_000_000 + j for j in range(i_ % NPROC, i_, NPROC)]
            if history:
                path, err2 = shrink_and_confirm(cid, tier, e["seeds"][0], sig, history=history)
                err = err if path is None else None
        if path is None:
            print("HARNESS-ERROR: property=%s violation %s at seed %d did not replay: %s" % (
                cid, sig, e["seeds"][0], err))
            rc = max(rc, 2)
            continue
        print("VIOLATION property=%s replay=%s" % (cid, path))
        print("  signature: %s\n  detail: %s\n  seeds: %s (%d runs)" % (sig, e["detail"], e["seeds"], e["n"]))
        rc = 1
    for sig, e in reported[3:]:
        print("  (also) unlisted violation signature %s seeds %s" % (sig, e["seeds"]))
    if agg["harness"]:
        print("HARNESS-ERROR: %d harness errors, first: %s" % (len(agg["harness"]),
                                                                json.dumps(agg["harness"][0])[:1500]))
        if rc == 0 and (agg["runs"] == 0 or len(agg["harness"]) > max(3, agg["runs"] // 50)):
            rc = 2
    if agg["runs"] == 0 and rc == 0:
        rc = 2
    ev = write_evidence(cid, mod, tier, base_seed, agg)
    print("%s: %d runs (%d evaluations) in %.1fs, %d distinct non-trivial, sim time %.1fs, faults %s, violations %d "
          "(unlisted %d)" % (cid, agg["runs"], ev["coverage"]["evaluations"], agg["wall"], len(agg["keys"]),
                             agg["sim_ns"] / 1e9, agg["faults"], len(agg["viol"]), len(reported)))
    return rc


# ------------------------------------------------------------------------------------------------ shrink / replay
def shrink_history_main(cid, tier, seed, sig, path, history):
    """The violation needs runs that came before it in the same process.  Which ones is found by running in fresh
    processes: first the whole history, then with one earlier run dropped at a time (greedy, from the front)."""
    def attempt(hist):
        tmp = path + ".try"
        rep = {"property": cid, "seed": seed, "tier": tier, "signature": sig, "scenario": None, "trace": None,
               "history": hist, "digest": None, "detail": "", "shrink": {"history_of": len(history)}}
        with open(tmp, "w") as f:
            json.dump(rep, f)
        p = _spawn(["--replay", tmp])
        try:
            so, _ = p.communicate(timeout=300)
        except subprocess.TimeoutExpired:
            p.kill()
            return False
        finally:
            if os.path.exists(tmp):
                os.remove(tmp)
        return p.returncode == 1 and "REPRODUCED" in so
    if not attempt(history):
        print("NOT-REPRODUCED with history")
        return 2
    hist = list(history)
    # the most recent runs are the most likely carriers: try short suffixes first
    for n in (1, 2, 4, 8):
        if n < len(hist) and attempt(hist[-n:]):
            hist = hist[-n:]
            break
    i = 0
    while i < len(hist) and len(hist) > 1:
        cand = hist[:i] + hist[i + 1:]
        if attempt(cand):
            hist = cand
        else:
            i += 1
    mod = load_check(cid)
    for h_ in hist:
        run_one(mod, h_, tier)
    final = run_one(mod, seed, tier)
    detail = [v for v in final["violations"] if v["sig"] == sig]
    rep = {"property": cid, "seed": seed, "tier": tier, "signature": sig, "scenario": None, "trace": None, "history": hist,
           "digest": final.get("digest"), "detail": str(detail[0].get("detail")) if detail else "",
           "shrink": {"history_of": len(history), "history_kept": len(hist),
                      "note": "not reproducible from a fresh process: needs state the code under test carries over from "
                              "the listed earlier runs (same process, in this order)"}}
    with open(path, "w") as f:
        json.dump(rep, f, indent=1, default=str)
    print("shrunk history %d -> %d" % (len(history), len(hist)))
    return 0


def shrink_main(cid, tier, seed, sig, path, history=None):
    if history:
        return shrink_history_main(cid, tier, seed, sig, path, history)
    mod = load_check(cid)
    res = run_one(mod, seed, tier)
    res["tier"] = tier
    if sig not in sigs_of(res):
        print("NOT-REPRODUCED on re-run: got %s" % sigs_of(res))
        return 2
    s, t, info = shrink(mod, res, sig)
    final = run_one(mod, seed, tier, scenario=s, trace=t)
    detail = [v for v in final["violations"] if v["sig"] == sig]
    rep = {"property": cid, "seed": seed, "tier": tier, "signature": sig, "scenario": s, "trace": t,
           "digest": final.get("digest"), "detail": str(detail[0].get("detail")) if detail else "",
           "shrink": info, "original_sizes": {"trace": sum(len(v) for v in res["trace"].values())},
           "minimised_sizes": {"trace": sum(len(v) for v in t.values())}}
    os.makedirs(os.path.dirname(path), exist_ok=True)
    with open(path, "w") as f:
        json.dump(rep, f, indent=1, default=str)
    print("WROTE %s" % path)
    return 0


def replay_main(path):
    rep = json.load(open(path))
    mod = load_check(rep["property"])
    for h_ in rep.get("history") or ():
        # runs that came before it in the same process (the violation needs what they left behind in the code under test)
        run_one(mod, h_, rep.get("tier", "quick"))
    if rep.get("scenario") is None:
        res = run_one(mod, rep["seed"], rep.get("tier", "quick"))
    else:
        res = run_one(mod, rep["seed"], rep.get("tier", "quick"), scenario=rep["scenario"], trace=rep["trace"])
    got = sigs_of(res)
    ok = rep["signature"] in got
    same_digest = res.get("digest") == rep.get("digest")
    print("replay %s: signature %s -> %s; digest %s" % (path, rep["signature"], "REPRODUCED" if ok else
                                                        "not reproduced (got %s)" % got,
                                                        "identical" if same_digest else "DIFFERS"))
    for v in res["violations"]:
        if v["sig"] == rep["signature"]:
            print("  detail: %s" % str(v.get("detail"))[:1500])
            break
    if ok:
        print("VIOLATION property=%s replay=%s" % (rep["property"], path))
        return 1
    return 0
