"""In-process stand-in for the grpc module and the DEEP service.

The *real* generated stubs and protobuf serialisers run on top of FakeChannel: a request is serialised to bytes with
the stub's serialiser, handed to the SimService of the current run, and the reply bytes are parsed by the stub's
deserialiser.
"""
import grpc as _real_grpc

from . import kernel as _k

POLL = "/deepproto.proto.poll.v1.PollConfig/poll"
SEND = "/deepproto.proto.tracepoint.v1.SnapshotService/send"

#: the service of the run in progress
SERVICE = None


class FakeRpcError(_real_grpc.RpcError):
    def __init__(self, code, details="injected"):
        super().__init__(details)
        self._code = code
        self._details = details

    def code(self):
        return self._code

    def details(self):
        return self._details


class _MultiCallable:
    def __init__(self, channel, method, request_serializer, response_deserializer):
        self.channel = channel
        self.method = method
        self.ser = request_serializer
        self.deser = response_deserializer

    def __call__(self, request, timeout=None, metadata=None, credentials=None, wait_for_ready=None,
                 compression=None):
        svc = SERVICE
        if svc is None:
            raise FakeRpcError(_real_grpc.StatusCode.UNAVAILABLE, "no service")
        if self.channel.closed:
            raise ValueError("Cannot invoke RPC on closed channel!")
        data = self.ser(request)  # real serialiser: raises exactly what the real channel path would raise
        reply = svc.handle(self.channel, self.method, data, metadata)
        return self.deser(reply)

    def with_call(self, *a, **kw):
        return self(*a, **kw), None

    def future(self, *a, **kw):
        raise NotImplementedError


class FakeChannel:
    def __init__(self, target, secure, credentials=None, options=None):
        self.target = target
        self.secure = secure
        self.closed = False

    def unary_unary(self, method, request_serializer=None, response_deserializer=None, _registered_method=False):
        return _MultiCallable(self, method, request_serializer, response_deserializer)

    def close(self):
        self.closed = True

    def __enter__(self):
        return self

    def __exit__(self, *a):
        self.close()


class FakeGrpc:
    """Namespace that replaces ``grpc`` inside deep.grpc.grpc_service."""

    RpcError = _real_grpc.RpcError
    StatusCode = _real_grpc.StatusCode

    def __getattr__(self, name):
        return getattr(_real_grpc, name)

    @staticmethod
    def insecure_channel(target, options=None, compression=None):
        if SERVICE is not None and getattr(SERVICE, "on_channel", None) is not None:
            SERVICE.on_channel()        # creating a channel takes a while: what other threads do meanwhile
        ch = FakeChannel(target, False, None, options)
        if SERVICE is not None:
            SERVICE.channels.append(ch)
        return ch

    @staticmethod
    def secure_channel(target, credentials, options=None, compression=None):
        ch = FakeChannel(target, True, credentials, options)
        if SERVICE is not None:
            SERVICE.channels.append(ch)
        return ch

    @staticmethod
    def ssl_channel_credentials(root_certificates=None, private_key=None, certificate_chain=None):
        return ("ssl-credentials",)


GRPC = FakeGrpc()


class SimService:
    """Scriptable DEEP service.  ``poll_script`` is a list of poll behaviours consumed one per poll; when it runs
    out the service answers from its current state (UPDATE if the agent's hash differs, else NO_CHANGE)."""

    def __init__(self):
        from deepproto.proto.poll.v1 import poll_pb2
        from deepproto.proto.tracepoint.v1 import tracepoint_pb2
        self.poll_pb2 = poll_pb2
        self.tp_pb2 = tracepoint_pb2
        self.channels = []
        self.current_hash = "h0"
        self.current_tps = []          # list of TracePointConfig protobufs
        self.issued = {}               # hash -> list of tp ids
        self.polls = []                # (sim_ns, thread, current_hash, metadata, resource dict)
        self.snapshots = []            # (sim_ns, thread, Snapshot, metadata)
        self.send_attempts = []        # (sim_ns, thread, snapshot id hex)
        self.poll_script = []          # list of dicts: {"kind": "error"|"delay"|"raw"|"state", ...}
        self.send_script = []
        self.poll_faults = None        # callable(index) -> dict or None
        self.send_faults = None
        self.on_poll = None
        self.on_send = None
        self.ts_fn = None              # callable(poll index, sim now_ns) -> ts_nanos of the reply: the service's own clock
        self.issued[self.current_hash] = []

    # -- configuration by the scenario
    def set_config(self, tps, new_hash):
        self.current_tps = list(tps)
        self.current_hash = new_hash
        self.issued[new_hash] = [t.ID for t in tps]

    def make_tp(self, tp_id, path, line, args=None, watches=None, metrics=None):
        return self.tp_pb2.TracePointConfig(ID=tp_id, path=path, line_number=line, args=args or {},
                                            watches=watches or [], metrics=metrics or [])

    # -- transport entry point
    def handle(self, channel, method, data, metadata):
        k = _k.active()
        now = k.now_ns if k else 0
        tname = k.me().name if k else "?"
        if method == POLL:
            req = self.poll_pb2.PollRequest.FromString(data)
            idx = len(self.polls)
            res = {kv.key: _anyvalue(kv.value) for kv in req.resource.attributes}
            self.polls.append((now, tname, req.current_hash, _md(metadata), res))
            if k:
                k.log("svc", "poll", tname, req.current_hash)
            act = None
            if self.poll_faults is not None:
                act = self.poll_faults(idx)
            if act is None and self.on_poll is not None:
                act = self.on_poll(idx, req)
            if act is not None:
                r = self._apply_fault(k, act)
                if r is not None:
                    return r
            return self._poll_reply(req, now if self.ts_fn is None else self.ts_fn(idx, now))
        if method == SEND:
            snap = self.tp_pb2.Snapshot.FromString(data)
            idx = len(self.send_attempts)
            self.send_attempts.append((now, tname, snap.ID.hex()))
            act = None
            if self.send_faults is not None:
                act = self.send_faults(idx)
            if act is not None:
                r = self._apply_fault(k, act)
                if r is not None:
                    return r
            self.snapshots.append((now, tname, snap, _md(metadata)))
            if k:
                k.log("svc", "snapshot", tname, snap.tracepoint.ID)
            if self.on_send is not None:
                self.on_send(snap)
            return self.tp_pb2.SnapshotResponse().SerializeToString()
        raise FakeRpcError(_real_grpc.StatusCode.UNIMPLEMENTED, method)

    def _apply_fault(self, k, act):
        kind = act.get("kind")
        if act.get("delay") and k is not None:
            k.fault("rpc_delay")
            k.sleep(act["delay"])
        if kind == "error":
            if k is not None:
                k.fault("rpc_error")
            raise FakeRpcError(getattr(_real_grpc.StatusCode, act.get("code", "UNAVAILABLE")))
        if kind == "raw":
            if k is not None:
                k.fault("bad_response")
            return act["bytes"]
        if kind == "garbage":
            if k is not None:
                k.fault("bad_response")
            return b"\xff\xff\xff\x07garbage"
        return None

    def _poll_reply(self, req, now):
        P = self.poll_pb2
        if req.current_hash == self.current_hash:
            return P.PollResponse(ts_nanos=now, current_hash=self.current_hash,
                                  response_type=P.ResponseType.NO_CHANGE).SerializeToString()
        return P.PollResponse(ts_nanos=now, current_hash=self.current_hash, response=self.current_tps,
                              response_type=P.ResponseType.UPDATE).SerializeToString()


def _md(metadata):
    if metadata is None:
        return None
    return [tuple(x) for x in metadata]


def _anyvalue(v):
    w = v.WhichOneof("value")
    if w is None:
        return None
    x = getattr(v, w)
    if w == "array_value":
        return [_anyvalue(i) for i in x.values]
    if w == "kvlist_value":
        return {kv.key: _anyvalue(kv.value) for kv in x.values}
    return x
