"""Compare a delivered Snapshot (protobuf) with the reference reading of the frame it claims to describe."""
from .refmodel import RefGraph, CONTAINERS, esc


class Issue:
    __slots__ = ("code", "path", "detail")

    def __init__(self, code, path, detail=""):
        self.code = code
        self.path = path
        self.detail = detail

    def __repr__(self):
        return "%s@%s %s" % (self.code, self.path, self.detail)


class WalkResult:
    def __init__(self):
        self.issues = []
        self.matched = {}        # vid -> RefNode
        self.depth_of_vid = {}   # vid -> min depth seen
        self.max_depth = 0
        self.present = set()     # ref serials present in the snapshot (reachable part)
        self.edges = 0
        self.cut = {}            # vid -> True when the snapshot variable has fewer children than the object
        self.children_of = {}    # ref serial -> number of children recorded in the snapshot


def walk(snapshot, roots, graph, string_limit=None, collection_limit=None, strict_text=True):
    """roots: list of (VariableID proto, RefNode, path).  Breadth-first parallel walk snapshot <-> reference."""
    res = WalkResult()
    lookup = snapshot.var_lookup
    obj_to_vid = {}
    queue = [(v, n, p, 1) for (v, n, p) in roots]
    seen_edges = set()
    while queue:
        vref, node, path, depth = queue.pop(0)
        res.edges += 1
        vid = vref.ID
        if vid not in lookup:
            res.issues.append(Issue("dangling-ref", path, "id %r not in var_lookup" % vid))
            continue
        var = lookup[vid]
        res.max_depth = max(res.max_depth, depth)
        # identity
        prev = res.matched.get(vid)
        if prev is not None and prev is not node:
            res.issues.append(Issue("identity-two-objects-one-id", path,
                                    "id %s used for %s and %s" % (vid, prev.tname, node.tname)))
        ov = obj_to_vid.get(node.serial)
        if ov is not None and ov != vid:
            res.issues.append(Issue("identity-one-object-two-ids", path, "object %s has ids %s and %s" % (
                node.tname, ov, vid)))
        obj_to_vid.setdefault(node.serial, vid)
        first = prev is None
        res.matched.setdefault(vid, node)
        res.present.add(node.serial)
        if depth < res.depth_of_vid.get(vid, 1 << 30):
            res.depth_of_vid[vid] = depth
        if not first:
            continue
        # type + text
        if var.type != node.tname:
            res.issues.append(Issue("type-mismatch", path, "snapshot %r real %r" % (var.type, node.tname)))
        if type(node.obj) in CONTAINERS:
            if node.length is not None and str(node.length) not in var.value:
                res.issues.append(Issue("container-text-no-len", path, "%r for len %d" % (var.value, node.length)))
        elif node.kind != "iter" and node.text is not None and strict_text:
            want = node.text
            if string_limit is not None:
                cut = len(want) > string_limit
                if var.value != want[:string_limit] and var.value != esc(want[:string_limit]):
                    res.issues.append(Issue("text-mismatch", path, "snapshot %r real %r" % (
                        var.value[:80], want[:80])))
                if bool(var.truncated) != cut:
                    res.issues.append(Issue("truncated-flag", path, "truncated=%s but real length %d limit %d" % (
                        var.truncated, len(want), string_limit)))
            elif var.value != want and var.value != esc(want):
                res.issues.append(Issue("text-mismatch", path, "snapshot %r real %r" % (var.value[:80], want[:80])))
        if string_limit is not None and len(var.value) > string_limit:
            res.issues.append(Issue("string-over-limit", path, "len %d > %d" % (len(var.value), string_limit)))
        # children
        kids = list(var.children)
        if node.kind in ("seq", "set") and collection_limit is not None and len(kids) > collection_limit:
            res.issues.append(Issue("collection-over-limit", path, "%d children > %d" % (len(kids), collection_limit)))
        ref_kids = graph.expand(node)
        res.children_of[node.serial] = len(kids)
        used = set()
        for kid in kids:
            m = None
            if node.kind == "set":
                # order is the container's own iteration order: match as a multiset on (type, text)
                kv = lookup.get(kid.ID)
                for i, (names, orig, rn) in enumerate(ref_kids):
                    if i in used:
                        continue
                    if kv is None or (kv.type == rn.tname and (
                            rn.text is None or kv.value in (rn.text, esc(rn.text)) or type(rn.obj) in CONTAINERS
                            or (kv.truncated and rn.text.startswith(kv.value)))):
                        m = i
                        break
            else:
                for i, (names, orig, rn) in enumerate(ref_kids):
                    if i not in used and kid.name in names:
                        m = i
                        break
            if m is None:
                res.issues.append(Issue("phantom-child", path + "." + kid.name, "no such member in the real %s" % node.tname))
                continue
            used.add(m)
            names, orig, rn = ref_kids[m]
            if orig is not None and kid.original_name and kid.original_name != orig:
                res.issues.append(Issue("original-name", path + "." + kid.name, "%r != %r" % (kid.original_name, orig)))
            queue.append((kid, rn, path + "." + kid.name, depth + 1))
        if len(used) < len(ref_kids):
            res.cut[vid] = [sorted(ref_kids[i][0])[0] for i in range(len(ref_kids)) if i not in used]
    return res


def frame_roots(snapshot, frame_index, graph, real_locals, path_prefix="f"):
    """Match the variables of snapshot.frames[frame_index] to the real locals by name.  -> (roots, issues)"""
    issues = []
    roots = []
    fr = snapshot.frames[frame_index]
    seen = set()
    for v in fr.variables:
        if v.name not in real_locals:
            issues.append(Issue("phantom-local", "%s%d.%s" % (path_prefix, frame_index, v.name), "not a local of the frame"))
            continue
        if v.name in seen:
            issues.append(Issue("duplicate-local", "%s%d.%s" % (path_prefix, frame_index, v.name)))
        seen.add(v.name)
        roots.append((v, graph.node(real_locals[v.name]), "%s%d.%s" % (path_prefix, frame_index, v.name)))
    for name in real_locals:
        if name not in seen:
            issues.append(Issue("missing-local", "%s%d.%s" % (path_prefix, frame_index, name)))
    return roots, issues


def all_refs(snapshot):
    """Every VariableID mentioned anywhere in the snapshot, with a description of where."""
    for fi, fr in enumerate(snapshot.frames):
        for v in fr.variables:
            yield "frame%d.%s" % (fi, v.name), v
    for vid, var in snapshot.var_lookup.items():
        for c in var.children:
            yield "var%s.%s" % (vid, c.name), c
    for wi, w in enumerate(snapshot.watches):
        if w.HasField("good_result"):
            yield "watch%d(%s)" % (wi, w.expression), w.good_result


def closure_issues(snapshot):
    out = []
    for where, v in all_refs(snapshot):
        if v.ID not in snapshot.var_lookup:
            out.append(Issue("dangling-ref", where, "id %r not in var_lookup" % v.ID))
    return out
