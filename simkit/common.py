"""Helpers shared by the checks."""
import gc
import random

from . import kernel, seams

P_SWITCH = (0.0, 0.01, 0.05, 0.15, 0.4)


def draw_knobs(r, **over):
    kn = {"p_switch": r.choice(P_SWITCH), "cost_ns": r.choice((200, 1000, 20000)),
          "clock_step_ns": r.choice((500, 2000, 50000)), "stall_p": r.choice((0.0, 0.0, 0.002, 0.01)),
          "trace_self": r.random() < 0.3}
    kn.update(over)
    return kn


def make_kernel(ch, knobs=None, **kw):
    kn = dict(knobs or {})
    kn.update(kw)
    seams.install()
    pct = ()
    if kn.get("policy") == "prio":
        d = int(kn.get("pct_d", 2))
        span = int(kn.get("pct_span", 4000))
        pct = [ch.draw("pct", i, 0, lambda r: r.randrange(1, span)) for i in range(d)]
    return kernel.Kernel(ch, policy=kn.get("policy", "walk"), pct_points=[x for x in pct if x],
                         p_switch=kn.get("p_switch", 0.05), cost_ns=kn.get("cost_ns", 1000),
                         clock_step_ns=kn.get("clock_step_ns", 2000), stall_p=kn.get("stall_p", 0.0),
                         stall_ns=tuple(kn.get("stall_ns", (50_000_000, 5_000_000_000))),
                         ident_reuse_p=kn.get("ident_reuse_p", 0.0), max_steps=kn.get("max_steps", 400000),
                         max_sim_ns=kn.get("max_sim_ns", 3600 * 10**9), safe_prefixes=seams.safe_prefixes())


def run_in_kernel(ch, knobs, main_fn):
    """Run main_fn(k) as the main simulated thread.  Exceptions of main are re-raised as harness errors."""
    k = make_kernel(ch, knobs)
    random.seed(ch.seed)   # the process-global generator (the agent draws snapshot ids from it)
    # cyclic garbage (tracebacks <-> frames) may hold abandoned generators whose finalisation produces trace events:
    # the collector must not run at a moment the simulator does not control
    gc.collect()
    gc.disable()
    from . import shims
    shims.TRACE_SEAM.visible = seams.VISIBLE_FULL if (knobs or {}).get("trace_self", True) else seams.VISIBLE_HOST
    k.exit_hook = shims.thread_exit_hook
    try:
        k.run(lambda: main_fn(k))
    finally:
        gc.enable()
    if k.main.exc is not None:
        raise kernel.HarnessError("scenario main thread failed: %r" % (k.main.exc,)) from k.main.exc
    return k


def result(k, violations, key=None, **extra):
    if getattr(k, "harness_fault", None):
        raise kernel.HarnessError(k.harness_fault)
    vs = list(violations)
    probes = dict(k.probes)
    if k.hang:
        vs.append({"sig": "hang", "detail": k.hang})
    elif k.capped:
        # the run was cut off by the step or simulated-time budget and nothing was found waiting for good: the scenario
        # did not finish, what the oracles saw is a half-done run - inconclusive, counted, never reported
        vs = []
        key = None
        probes = {"inconclusive_capped_runs:%s" % k.capped: 1}
    res = {"violations": vs, "faults": dict(k.fault_counts), "probes": probes, "sim_ns": k.sim_elapsed_ns,
           "steps": k.yields, "digest": k.digest(), "key": key, "order": k.order_sig.hexdigest(),
           "switches": k.switches, "unsafe_skips": k.unsafe_skips, "capped": k.capped, "leaked": k.leaked}
    res.update(extra)
    return res


def V(sig, detail=""):
    return {"sig": sig, "detail": detail}


def drop_one(lst):
    """Shrink candidates: the list with one element removed, for each element."""
    for i in range(len(lst)):
        yield lst[:i] + lst[i + 1:]


def wait_until(k, pred, max_s=300.0):
    """Block the calling simulated thread until pred() holds (checked by the scheduler) or max_s simulated seconds."""
    ok = k.block_until(pred, k.now_ns + int(max_s * 1e9), why="wait_until")
    k.settle()
    return ok


def wait_delivery(k, w, max_s=300.0):
    """Wait until every snapshot handed to PushService has been attempted at the service (or max_s)."""
    return wait_until(k, lambda: len(w.service.send_attempts) >= len(w.pushed), max_s)


def race_knobs(r, **over):
    """Knobs for the race-oriented checks: random walk or PCT-style priorities with d change points."""
    kn = draw_knobs(r, **over)
    if r.random() < 0.35:
        kn["policy"] = "prio"
        kn["pct_d"] = r.randrange(0, 5)
        kn["pct_span"] = r.choice((300, 1500, 6000))
    return kn
