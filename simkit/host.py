"""Recorder of the delivered trace-event stream and helpers to run host programs on simulated threads."""
from . import kernel as _k, shims
from .refmodel import RefGraph, read_stack

HOST_PREFIXES = ("/simapp/", "/simlib/")


_SCOPES = {}


def _scope_locals(code):
    """Names that are local to the function's own scope, from the syntax tree of its source (not from the code object or
    the symbol table: since python 3.12 the loop variables of inlined comprehensions are fast locals of the enclosing
    code object too, although outside the comprehension such a name still means the global)."""
    import ast
    import linecache
    key = (code.co_filename, code.co_name, code.co_firstlineno)
    if key in _SCOPES:
        return _SCOPES[key]
    names = None
    try:
        tree = ast.parse("".join(linecache.getlines(code.co_filename)))
        fn = next((n for n in ast.walk(tree) if isinstance(n, (ast.FunctionDef, ast.AsyncFunctionDef, ast.Lambda))
                   and getattr(n, "name", "<lambda>") == code.co_name and n.lineno == code.co_firstlineno), None)
        if fn is not None:
            found = set()
            a_ = fn.args
            for arg in a_.posonlyargs + a_.args + a_.kwonlyargs + [x for x in (a_.vararg, a_.kwarg) if x]:
                found.add(arg.arg)
            declared_global = set()

            def visit(node, in_comp):
                for child in ast.iter_child_nodes(node):
                    if isinstance(child, (ast.FunctionDef, ast.AsyncFunctionDef, ast.ClassDef)):
                        found.add(child.name)
                        continue
                    if isinstance(child, ast.Lambda):
                        continue
                    if isinstance(child, (ast.Global, ast.Nonlocal)):
                        declared_global.update(child.names)
                    comp = isinstance(child, (ast.ListComp, ast.SetComp, ast.DictComp, ast.GeneratorExp))
                    if isinstance(child, ast.Name) and isinstance(child.ctx, (ast.Store, ast.Del)) and not in_comp:
                        found.add(child.id)
                    if isinstance(child, ast.NamedExpr) and isinstance(child.target, ast.Name):
                        found.add(child.target.id)      # := binds in the enclosing function, also inside a comprehension
                    if isinstance(child, (ast.Import, ast.ImportFrom)):
                        for al in child.names:
                            found.add((al.asname or al.name).split(".")[0])
                    if isinstance(child, ast.ExceptHandler) and child.name:
                        found.add(child.name)
                    visit(child, in_comp or comp)
            body = fn.body if isinstance(fn.body, list) else [fn.body]
            for stmt in body:
                wrapper = ast.Module(body=[stmt], type_ignores=[]) if isinstance(stmt, ast.stmt) else ast.Expression(body=stmt)
                visit(wrapper, False)
            names = tuple(sorted(found - declared_global))
    except Exception:  # noqa
        names = None
    _SCOPES[key] = names if names is not None else tuple(code.co_varnames + code.co_cellvars)
    return _SCOPES[key]


def _safe_text(x):
    try:
        return str(x)
    except BaseException:  # noqa (the exceptions the agent logged come from the host program: hostile __str__ included)
        return "<%s>" % type(x).__name__


class Recorder:
    """Sees every trace event before the agent does (installed at the trace seam).

    events: (seq, thread, event, basename, line, function, invocation serial) for host files.
    captures: reference reading of the frame, taken at events the scenario marked via want(...).
    """

    def __init__(self, k, depth=7, max_nodes=20000):
        self.k = k
        self.events = []
        self.captures = []
        self.want_lines = {}     # (basename, line) -> True
        self.want_calls = {}     # (basename, function) -> True
        self.want_events = set() # event kinds for which want_lines also applies ('line' by default)
        self.serial = 0
        self.live = {}           # id(frame) -> serial
        self.depth = depth
        self.max_nodes = max_nodes
        self.raised = []         # exceptions that left the agent's trace function
        self.on_event = None
        self.all_frames = False
        self.inv_first_last = {} # serial -> [first seq, last seq, thread, function, basename]
        self.world = None        # set by attach(): enables per-event attribution of agent effects
        self.effects = {}        # event seq -> [(kind, tracepoint id or None, payload)]
        self._marks = {}         # thread -> (seq, len(pushed), len(sink.calls))
        self.all_effects = []    # (event seq, thread, kind, tp, payload) in order
        self.errors = {}         # event seq -> error records the agent logged during that event
        self.exprs_for = {}      # (basename, line) -> expressions to evaluate on the reference frame at capture
        self.post_ns = {}        # event seq -> simulated clock when the agent's function returned
        self.ts_index = {}       # event seq -> (thread, index into the thread's clock log of the trigger's timestamp)

    def install(self):
        shims.TRACE_SEAM.recorder = self
        shims.TRACE_SEAM.on_raise = self._on_raise
        shims.TRACE_SEAM.post = self._post

    def attach(self, world):
        self.world = world
        return self

    def _post(self, frame, event, arg, result):
        me = self.k.me()
        tname = me.name if me is not None else "?"
        mark = self._marks.pop(tname, None)
        if mark is None or self.world is None:
            return
        seq, np, ns, nl = mark
        self.post_ns[seq] = self.k.now_ns
        out = []
        w = self.world
        errs = [(r[0], r[1], r[2], _safe_text(r[3])[:200]) for r in w.logs.records[nl:] if r[0] in ("ERROR", "CRITICAL")]
        if errs:
            self.errors[seq] = errs
        for (_, th, snap) in w.pushed[np:]:
            if th == tname:
                out.append(("snapshot", snap.tracepoint.id, snap))
        for (cseq, plugin, cb, th, payload) in w.sink.calls[ns:]:
            if th != tname:
                continue
            if cb == "log_tracepoint":
                out.append(("log", None, payload))
            elif cb in ("counter", "gauge", "histogram", "summary"):
                out.append(("metric", None, (plugin, cb) + tuple(payload)))
            elif cb == "create_span":
                out.append(("span", payload[2], (plugin,) + tuple(payload) + (cseq,)))
            elif cb == "span_close":
                out.append(("span_close", None, (plugin, payload)))
        if out:
            self.effects[seq] = out
            for kind, tp, payload in out:
                self.all_effects.append((seq, tname, kind, tp, payload))

    def _on_raise(self, frame, event, arg, exc):
        k = self.k
        self.raised.append((k.me().name if k.me() else "?", event, frame.f_code.co_filename.rsplit("/", 1)[-1],
                            frame.f_lineno, frame.f_code.co_name, type(exc).__name__, str(exc)[:200]))
        k.log("rec", "agent-raised", type(exc).__name__)

    def __call__(self, frame, event, arg):
        fn = frame.f_code.co_filename
        if not fn.startswith(HOST_PREFIXES):
            return
        base = fn.rsplit("/", 1)[-1]
        fid = id(frame)
        if event == "call":
            self.serial += 1
            ser = self.live[fid] = self.serial
        else:
            ser = self.live.get(fid, 0)
        me = self.k.me()
        tname = me.name if me is not None else "?"
        seq = len(self.events)
        line = frame.f_lineno
        func = frame.f_code.co_name
        self.events.append((seq, tname, event, base, line, func, ser))
        fl = self.inv_first_last.get(ser)
        if fl is None:
            self.inv_first_last[ser] = [seq, seq, tname, func, base]
        else:
            fl[1] = seq
        if event == "return":
            self.live.pop(fid, None)
        if self.world is not None:
            self._marks[tname] = (seq, len(self.world.pushed), len(self.world.sink.calls),
                                  len(self.world.logs.records))
            if me is not None:
                self.ts_index[seq] = (tname, len(me.clock_log))
        if (event == "line" and (base, line) in self.want_lines) or \
                (event == "call" and (base, func) in self.want_calls):
            self.capture(frame, event, arg, seq, tname, ser)
        cb = self.on_event
        if cb is not None:
            cb(frame, event, arg, seq, tname, ser)

    def capture(self, frame, event, arg, seq, tname, ser):
        g = RefGraph()
        f_locals = dict(frame.f_locals)
        roots = {name: g.node(v) for name, v in f_locals.items()}
        # eager expansion: the program goes on mutating these objects after the event
        level = list(roots.values())
        seen = set(n.serial for n in level)
        d = 1
        while level and d < self.depth and len(g.order) < self.max_nodes:
            nxt = []
            for n in level:
                for names, orig, c in g.expand(n):
                    if c.serial not in seen:
                        seen.add(c.serial)
                        nxt.append(c)
            level = nxt
            d += 1
        exprs = {}
        for ex in self.exprs_for.get((frame.f_code.co_filename.rsplit("/", 1)[-1], frame.f_lineno), ()):
            try:
                # as the expression would evaluate if it stood at that line: nested scopes in it (a generator expression,
                # a lambda) see the function's locals there; with eval that takes one namespace, locals over globals
                scope = dict(frame.f_globals)
                scope.update(f_locals)
                for nm in _scope_locals(frame.f_code):
                    if nm not in f_locals:
                        scope.pop(nm, None)     # a local that is not bound yet hides the global of that name
                val = eval(ex, scope)
                n = g.node(val)
                lv = [n]
                for _ in range(3):
                    lv = [c for m in lv for (_n, _o, c) in g.expand(m)][:2000]
                exprs[ex] = ("ok", n)
            except BaseException as e:  # noqa
                exprs[ex] = ("err", e)
        all_locals = []
        if self.all_frames:
            f = frame.f_back
            while f is not None:
                fn_ = f.f_code.co_filename
                if fn_.startswith(HOST_PREFIXES):
                    try:
                        fl = dict(f.f_locals)
                    except Exception:  # noqa (a class body's namespace need not be a dict, or even a mapping)
                        fl = {}
                    rts = {name: g.node(v) for name, v in fl.items()}
                    lv = list(rts.values())
                    for _ in range(self.depth - 1):
                        lv = [c for m in lv for (_n, _o, c) in g.expand(m)][:5000]
                    all_locals.append((fl, rts))
                else:
                    all_locals.append((None, None))
                f = f.f_back
        cap = {"exprs": exprs, "outer": all_locals, "seq": seq, "thread": tname, "event": event, "basename": frame.f_code.co_filename.rsplit("/", 1)[-1],
               "line": frame.f_lineno, "func": frame.f_code.co_name, "serial": ser, "stack": read_stack(frame),
               "locals": f_locals, "graph": g, "roots": roots, "now_ns": self.k.now_ns,
               "globals": frame.f_globals}
        self.captures.append(cap)
        return cap


def run_threads(k, fns, names=None):
    """Run each fn on its own simulated thread and wait for all of them."""
    ts = []
    for i, fn in enumerate(fns):
        t = shims.SimThread(target=fn, name=(names[i] if names else "app%d" % i))
        ts.append(t)
    for t in ts:
        t.start()
    for t in ts:
        t.join()
    return ts
