"""Install the simulator at the seams deep.* already has (module globals), found by scanning, not by a list."""
import importlib
import logging
import os
import pkgutil
import sys
import threading as _rt
import time as _rtime
import uuid as _ruuid
from concurrent.futures import ThreadPoolExecutor as _RealTPE

from . import shims, fakegrpc

REPO = os.environ.get("VERIF_REPO", "/repo")
SRC = os.path.join(REPO, "src")

#: what the agent's trace function is shown: host files and (as in production, where it traces its own worker and
#: timer threads) the agent's own modules - or host files only (a per-run knob: tracing itself costs ~50 us per line
#: of agent code executed on those threads and dominates runs with large snapshots)
VISIBLE_FULL = (os.path.join(SRC, "deep") + os.sep, "/simapp/", "/simlib/")
VISIBLE_HOST = ("/simapp/", "/simlib/")

_installed = False
_originals = []   # (module, name, original)
rebound = []      # names for the evidence


def import_deep():
    """Import every deep.* module from VERIF_REPO/src (asserting that is where it comes from)."""
    if SRC not in sys.path:
        sys.path.insert(0, SRC)
    import deep
    if not os.path.realpath(deep.__file__).startswith(os.path.realpath(SRC)):
        raise RuntimeError("deep imported from %s, expected under %s" % (deep.__file__, SRC))
    for m in pkgutil.walk_packages(deep.__path__, "deep."):
        name = m.name
        # everything is imported up front (also the optional integrations the plugin loader imports on demand):
        # a first-time import inside a traced thread would deliver module-body trace events in one run only
        try:
            importlib.import_module(name)
        except Exception:  # noqa
            pass
    return deep


def install():
    """Idempotent.  Rebind time/threading/uuid/sys/grpc/executor names in all deep.* modules."""
    global _installed
    if _installed:
        return
    import_deep()
    import grpc as _rgrpc
    import concurrent.futures._base as cfb
    repl_modules = {id(_rtime): shims.TIME, id(_rt): shims.THREADING, id(_ruuid): shims.UUID, id(sys): shims.SYS,
                    id(_rgrpc): fakegrpc.GRPC}
    repl_objs = {id(_rt.Thread): shims.SimThread, id(_rt.Event): shims.SimEvent, id(_rt.Lock): shims.SimLock,
                 id(_rt.RLock): shims.SimRLock, id(_rt.Condition): shims.SimCondition,
                 id(_rt.Semaphore): shims.SimSemaphore, id(_RealTPE): shims.SimExecutor,
                 id(_rt.current_thread): shims.sim_current_thread, id(_rt.get_ident): shims.sim_get_ident,
                 id(_ruuid.uuid4): shims.UUID.uuid4,
                 id(_rtime.time): shims.TIME.time, id(_rtime.time_ns): shims.TIME.time_ns,
                 id(_rtime.sleep): shims.TIME.sleep, id(_rtime.monotonic): shims.TIME.monotonic}
    for modname, mod in sorted(sys.modules.items()):
        if mod is None or not (modname == "deep" or modname.startswith("deep.")):
            continue
        for name, val in list(vars(mod).items()):
            new = repl_modules.get(id(val))
            if new is None:
                new = repl_objs.get(id(val))
            if new is None:
                continue
            if modname == "deep.logging" or (name == "sys" and modname == "deep.config"):
                continue
            _originals.append((mod, name, val))
            setattr(mod, name, new)
            rebound.append("%s.%s" % (modname, name))
    _originals.append((cfb, "threading", cfb.threading))
    cfb.threading = shims.THREADING
    rebound.append("concurrent.futures._base.threading")
    shims.patch_process_time()
    shims.TRACE_SEAM.visible = VISIBLE_FULL
    _installed = True


def safe_prefixes(extra=()):
    """File-name prefixes whose frames may be parked (they hold no real lock while calling out)."""
    stdlib = os.path.dirname(os.__file__)
    return (SRC, os.path.dirname(os.path.dirname(__file__)), "<sim", "/simapp/", "/simlib/",
            os.path.join(stdlib, "threading.py"), os.path.join(stdlib, "concurrent/futures/"),
            os.path.join(stdlib, "string.py"), os.path.join(stdlib, "contextlib.py"),
            os.path.join(stdlib, "abc.py"), os.path.join(stdlib, "typing.py")) + tuple(extra)


class LogCapture(logging.Handler):
    """Collects WARNING+ records of the agent without formatting them (formatting would call host dunders)."""

    def __init__(self):
        super().__init__(level=logging.WARNING)
        self.records = []

    def emit(self, record):
        et = None
        if record.exc_info and record.exc_info[0] is not None:
            et = record.exc_info[0].__name__
        self.records.append((record.levelname, str(record.msg), et, record.exc_info[1] if record.exc_info else None))


_capture = None


def capture_logs():
    """Fresh capture handler on the root logger (deep logs both through 'deep' and through the root logger)."""
    global _capture
    root = logging.getLogger()
    if _capture is not None:
        root.removeHandler(_capture)
    _capture = LogCapture()
    root.addHandler(_capture)
    logging.getLogger("deep").setLevel(logging.WARNING)
    return _capture


def reset_process_state():
    """Process-global state of deep.* that would leak from one run into the next."""
    from deep.thread_local import ThreadLocal
    store = ThreadLocal.__dict__.get("_ThreadLocal__store")
    if store is not None:
        store.clear()
    try:
        # (a per-process cache of the code under test: what it costs to fill depends on what ran earlier in the process)
        from deep.processor.context import trigger_context as _tc
        getattr(_tc, "_OWN_VARIABLES", {}).clear()
    except ImportError:
        pass
    from deep.config.config_service import ConfigService
    from deep.config.tracepoint_config import TracepointConfigService
    d = ConfigService.__init__.__defaults__
    if d is not None:
        ConfigService.__init__.__defaults__ = tuple(
            TracepointConfigService() if isinstance(x, TracepointConfigService) else x for x in d)
    sys.settrace(None)
    _rt.settrace(None)
    shims.TRACE_SEAM.recorder = None
    shims.TRACE_SEAM.on_raise = None
    shims.TRACE_SEAM.post = None
