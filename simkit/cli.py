"""Command line: check / worker / shrink / replay."""
import os
import sys


def main(argv):
    sys.setswitchinterval(0.0005)
    src = os.path.join(os.environ.get("VERIF_REPO", "/repo"), "src")
    if sys.path[0] != src:
        sys.path.insert(0, src)    # before anything imports deep (the venv has an editable install of /repo)
    if argv and argv[0] == "--worker":
        from .runner import worker_main
        worker_main(argv[1:])
        return 0
    if argv and argv[0] == "--shrink":
        from .runner import shrink_main
        hist = [int(x) for x in argv[6].split(",")] if len(argv) > 6 and argv[6] else None
        return shrink_main(argv[1], argv[2], int(argv[3]), argv[4], argv[5], hist)
    if argv and argv[0] == "--replay":
        from .runner import replay_main
        return replay_main(argv[1])
    if argv and argv[0] == "--one":
        # debug: run one seed of a check in-process and print the result
        import json
        from .runner import load_check, run_one
        mod = load_check(argv[1])
        res = run_one(mod, int(argv[2]), argv[3] if len(argv) > 3 else "quick")
        if "-q" in argv:
            res.pop("trace", None)
        print(json.dumps(res, indent=1, default=str) if "-q" in argv else json.dumps(res, indent=1, default=str)[:20000])
        return 0
    cid = argv[0]
    tier = "quick"
    if "--tier" in argv:
        tier = argv[argv.index("--tier") + 1]
    tier = os.environ.get("VERIF_TIER", tier) if "--tier" not in argv else tier
    from .runner import check_main
    return check_main(cid, tier)


if __name__ == "__main__":
    sys.exit(main(sys.argv[1:]))
