"""Mode D: the simulator's own line tracer over deep.* frames: a pre-emption point per line of agent code, and
hook-free crash-point injection (an exception raised by the tracer surfaces at exactly that line)."""
import dis
import sys
import threading as _rt

from . import kernel as _k


class InjectedFault(Exception):
    """Stands for any latent internal failure (MemoryError, RecursionError, a bug) at one line of agent code."""


_RAISING_OPS = ("CALL", "LOAD_ATTR", "LOAD_GLOBAL", "BINARY_", "_SUBSCR", "FOR_ITER", "GET_ITER", "UNPACK_",
                "COMPARE_OP", "CONTAINS_OP", "IMPORT_", "LOAD_NAME", "LOAD_METHOD", "STORE_ATTR", "DELETE_")
_line_can_raise = {}


def line_can_raise(code, lineno):
    key = (code, lineno)
    r = _line_can_raise.get(key)
    if r is None:
        r = False
        cur = None
        for ins in dis.get_instructions(code):
            if ins.starts_line is not None:
                cur = ins.starts_line
            if cur == lineno and ins.opname == "BEFORE_WITH":
                # the line of a `with` statement is visited a second time for the implicit __exit__(None, None, None)
                # call, which lies outside the protected range: a tracer-raised exception there skips __exit__, which
                # no synchronous failure of the program can do.  Not a crash point.
                r = False
                break
            if cur == lineno and any(op in ins.opname for op in _RAISING_OPS):
                r = True
        _line_can_raise[key] = r
    return r


class LineTracer:
    def __init__(self, k, prefixes, exclude=(), crash_at=None, crash_filter=None, yield_lines=True,
                 crash_exc=InjectedFault, targets=None):
        self.k = k
        self.prefixes = tuple(prefixes)
        self.exclude = tuple(exclude)
        self.crash_at = crash_at
        self.crash_filter = crash_filter
        self.crash_exc = crash_exc
        self.yield_lines = yield_lines
        self.lines = 0
        self.crash_points = 0
        self.crashed_at = None
        self.armed = True
        #: targeted pre-emption (strategy C): {function name: (thread to switch to, probability per line)} - at a line
        #: of such a function the scheduler is asked to hand over to that thread; the draw is part of the choice trace
        self.targets = targets or {}
        self.target_n = 0
        self._first_lines = {}

    def _first_body_line(self, code):
        ln = self._first_lines.get(code)
        if ln is None:
            later = [l_ for (_a, _b, l_) in code.co_lines() if l_ is not None and l_ > code.co_firstlineno]
            ln = self._first_lines[code] = min(later) if later else code.co_firstlineno
        return ln

    def install(self):
        sys.settrace(self.global_trace)
        _rt.settrace(self.global_trace)

    def uninstall(self):
        sys.settrace(None)
        _rt.settrace(None)

    def global_trace(self, frame, event, arg):
        fn = frame.f_code.co_filename
        if fn.startswith(self.prefixes) and not fn.startswith(self.exclude):
            return self.local_trace
        return None

    def local_trace(self, frame, event, arg):
        if event == "line":
            self.lines += 1
            if self.armed and self.crash_filter is not None and self.crash_filter(frame):
                self.crash_points += 1
                if self.crash_points == self.crash_at:
                    self.crashed_at = (frame.f_code.co_filename.rsplit("/", 1)[-1], frame.f_code.co_name,
                                       frame.f_lineno)
                    self.k.fault("crash_point")
                    raise self.crash_exc("injected at %s:%s:%d" % self.crashed_at)
            if self.targets:
                tg = self.targets.get(frame.f_code.co_name)
                # tg = (thread to hand over to | "@stall", probability, "once" | (min ns, max ns), "any" | "", predicate)
                if tg is not None and (len(tg) < 5 or tg[4]()):
                    self.target_n += 1
                    if tg[0] == "@stall":
                        # a targeted slow-down: the thread that runs this function stands still for a while (a loaded
                        # host) - at the function's first line, or ("any") at whichever line the draw picks.  (No
                        # bookkeeping by id(frame): addresses are reused differently from process to process.)
                        any_line = len(tg) > 3 and tg[3] == "any"
                        if any_line or frame.f_lineno == self._first_body_line(frame.f_code):
                            ns = self.k.ch.draw("target", self.target_n, 0, lambda r: (
                                r.randrange(tg[2][0], tg[2][1]) if r.random() < tg[1] else 0))
                            if ns:
                                self.k.fault("stall")
                                self.k.probe("targeted_stall")
                                self.k.block_until(None, self.k.now_ns + ns, why="stall")
                    elif self.k.ch.draw("target", self.target_n, False, lambda r: r.random() < tg[1]):
                        self.k.force_switch_to = tg[0]
                        self.k.probe("targeted_switch_requested")
                        if len(tg) > 2 and tg[2] == "once":
                            # a single hand-over: the thread handed to must not hand straight back at its own lines
                            self.targets = {k_: v_ for k_, v_ in self.targets.items() if v_ is not tg}
            if self.yield_lines:
                self.k.yield_point("line")
        return self.local_trace
