"""Independent reading of frames and values (no deep code), and reference models used as oracles."""
import os

CONTAINERS = (dict, list, tuple, set, frozenset)
LISTLIKE = (list, tuple, set, frozenset)
SCALARS = (str, int, float, bool, type(None), complex, bytes)


def tname_of(t):
    """The name of a type, read from type itself (a metaclass can make .__name__ do anything)."""
    try:
        n = type.__dict__["__name__"].__get__(t)
    except BaseException:  # noqa
        n = None
    return n if type(n) is str else "?"


class RefNode:
    """Reference reading of one object."""
    __slots__ = ("obj", "tname", "text", "text_err", "kind", "length", "children", "serial", "depth")

    def __init__(self, obj):
        self.obj = obj
        self.tname = tname_of(type(obj))
        self.children = None   # list of (names:set[str], original_name|None, RefNode) ; None = not expanded
        self.kind = kind_of(obj)
        self.length = None
        self.text = None
        self.text_err = None
        try:
            if type(obj) in CONTAINERS:
                self.length = len(obj)
            else:
                self.text = str(obj)
                if type(self.text) is not str:       # a __str__ may give an instance of a subclass of str
                    self.text = str.__str__(self.text)
        except BaseException as e:  # noqa - faulting host objects
            self.text_err = e


def kind_of(obj):
    t = type(obj)
    if t is dict:
        return "dict"
    if t in LISTLIKE:
        return "seq" if t in (list, tuple) else "set"
    # type-based tests only: isinstance() may consult obj.__class__, which a host object can make raise
    if issubclass(t, SCALARS) or issubclass(t, type) or tname_of(t) in ("module", "traceback"):
        if t not in SCALARS and not issubclass(t, type) and tname_of(t) not in ("module", "traceback") and _inst_dict(obj):
            return "obj"     # an instance of a scalar subclass that carries attributes of its own (enum members)
        return "leaf"
    n = tname_of(t)
    if "iterator" in n or "generator" in n or n in ("range_iterator", "enumerate", "zip", "map", "filter",
                                                    "coroutine", "async_generator"):
        return "iter"
    if issubclass(t, BaseException):
        return "exc"
    return "obj"


def esc(s):
    """Wire form of text that is not valid UTF-8 (lone surrogates): backslash-escaped."""
    try:
        s.encode("utf-8")
        return s
    except UnicodeEncodeError:
        return s.encode("utf-8", "backslashreplace").decode("utf-8")
    except AttributeError:
        return s


def safe_str(o):
    try:
        return str(o)
    except BaseException:  # noqa
        return None


def safe_repr(o):
    try:
        return repr(o)
    except BaseException:  # noqa
        return None


class RefGraph:
    """Identity-preserving reference graph of the values reachable from a set of roots."""

    def __init__(self):
        self.nodes = {}    # id(obj) -> RefNode  (objects are kept alive by the nodes)
        self.order = []

    def node(self, obj):
        n = self.nodes.get(id(obj))
        if n is None or n.obj is not obj:
            n = RefNode(obj)
            n.serial = len(self.order)
            self.nodes[id(obj)] = n
            self.order.append(n)
        return n

    def expand(self, n):
        """Children of node n as [(accepted names, mangled name or None, child node)]."""
        if n.children is not None:
            return n.children
        out = []
        o = n.obj
        try:
            if n.kind == "dict":
                for k in list(o.keys()):
                    if k in o:
                        names = {x for x in (safe_str(k), safe_repr(k)) if x is not None}
                        names |= {esc(x) for x in names}
                        out.append((names, None, self.node(o[k])))
            elif n.kind in ("seq", "set"):
                for i, v in enumerate(tuple(o)):
                    out.append(({str(i)}, None, self.node(v)))
            elif n.kind == "exc":
                for i, v in enumerate(tuple(o.args)):
                    out.append(({str(i)}, None, self.node(v)))
                d = _inst_dict(o)
                if d:
                    for k, v in d.items():
                        out.append(({k, _demangle(type(o), k)}, k, self.node(v)))
            elif n.kind == "obj":
                d = _inst_dict(o)
                if d is not None:
                    for k in list(d.keys()):
                        if isinstance(k, str):
                            # the statement does not fix the naming of name-mangled attributes: accept both forms
                            out.append(({_demangle(type(o), k), k, esc(k)}, k if _demangle(type(o), k) != k else None,
                                        self.node(d[k])))
        except BaseException:  # noqa - host object misbehaves: no children demanded
            out = []
        n.children = out
        return out


def _inst_dict(o):
    try:
        d = object.__getattribute__(o, "__dict__")
    except BaseException:  # noqa
        return None
    return d if isinstance(d, dict) else None


def _demangle(cls, name):
    # only private names are mangled (__x -> _Class__x); "_Items" on class Item is simply "_Items"
    for c in getattr(cls, "__mro__", (cls,)):
        p = "_" + tname_of(c).lstrip("_")
        if name.startswith(p + "__") and not name.endswith("__"):
            return name[len(p):]
    return name


# --------------------------------------------------------------------------------------------- frames
def read_stack(frame):
    """[(filename, function, lineno, class name of self or None)] innermost first."""
    out = []
    f = frame
    while f is not None:
        cls = None
        try:
            s = f.f_locals.get("self", None)
            if s is not None:
                cls = tname_of(type(s))
        except BaseException:  # noqa
            cls = None
        out.append((f.f_code.co_filename, f.f_code.co_name, f.f_lineno, cls))
        f = f.f_back
    return out


def app_frame_rule(filename, app_root, includes, excludes):
    """Independent statement of C19's app-frame rule: exclude wins; else include or app root.  -> (app, short)"""
    for p in excludes:
        if filename.startswith(p):
            return False, filename[len(p):]
    for p in includes:
        if filename.startswith(p):
            return True, filename[len(p):]
    if app_root is not None and filename.startswith(app_root):
        return True, filename[len(app_root):]
    return False, filename


# --------------------------------------------------------------------------------------------- limiter
class RefLimiter:
    """Reference rate limiter of C04/C10, a function of the hit stamps alone: a hit collects iff count, window, period
    and condition allow it.  ``allows`` answers True / False, or None where the property does not decide: a hit stamped
    BEFORE an already recorded collection (a thread that stamped its hit, was pre-empted, and reached the limiter after a
    later-stamped hit was recorded; or the wall clock set back) and at least a period away from every recorded stamp.
    Collecting it is safe by the stamps; refusing it is what a limiter that remembers only its last collection must do to
    stay safe - neither is held against the agent.  With a period of 0 (or less) nothing is ever too close, so such a hit
    is demanded like any other."""

    def __init__(self, fire_count=1, fire_period_ms=1000, window=(0, 0)):
        self.fc = _parse_int(fire_count, 1)
        self.period_ns = _parse_int(fire_period_ms, 1000) * 1_000_000
        self.window = window
        self.count = 0
        self.stamps = []

    @property
    def last(self):
        return self.stamps[-1] if self.stamps else None

    def allows(self, ts):
        if self.fc != -1 and self.count >= self.fc:
            return False
        ws, we = self.window
        if ws and ts < ws:
            return False
        if we and ts > we:
            return False
        if self.period_ns > 0 and self.stamps:
            if any(abs(ts - s_) < self.period_ns for s_ in self.stamps):
                return False
            if ts < max(self.stamps):
                return None
        return True

    def record(self, ts):
        self.count += 1
        self.stamps.append(ts)

    def hit(self, ts, condition=True):
        if self.allows(ts) and condition:
            self.record(ts)
            return True
        return False


def _parse_int(v, default):
    try:
        return int(v)
    except (ValueError, TypeError):
        return default


def basename(p):
    return os.path.basename(p)
