"""Seeded generators of host programs (Python source), values and tracepoint sets."""
import linecache

APP_DIR = "/simapp/"

PRELUDE = '''
class P:
    def __init__(self, a, b):
        self.a = a
        self._b = b
        self.__c = [a, b]
    def __str__(self):
        return "P(%s)" % (self.a,)

class Q(P):
    def __init__(self, a, b, d):
        super().__init__(a, b)
        self.__d = d
        self.d2 = {"k": d}
    def __str__(self):
        return "Q(%s)" % (self.a,)

class S:
    __slots__ = ("x", "y")
    def __init__(self, x, y):
        self.x = x
        self.y = y
    def __str__(self):
        return "S(%s,%s)" % (self.x, self.y)

class HostErr(Exception):
    pass

class HostBase(BaseException):
    pass

class BadStr:
    def __init__(self, tag):
        self.tag = tag
    def __str__(self):
        raise ValueError("bad __str__ " + str(self.tag))
    __repr__ = __str__

class BadStrBase:
    def __init__(self, tag):
        self.tag = tag
    def __str__(self):
        raise HostBase("bad __str__ base " + str(self.tag))
    __repr__ = __str__

class BadLen(list):
    def __len__(self):
        raise ValueError("bad __len__")

class BadIter(list):
    def __iter__(self):
        raise ValueError("bad __iter__")

class BadGetattr:
    def __init__(self, tag):
        self.tag = tag
    def __getattr__(self, name):
        raise RuntimeError("bad __getattr__ " + name)

class BadDict:
    def __init__(self, tag):
        object.__setattr__(self, "tag", tag)
    def __getattribute__(self, name):
        if name == "__dict__":
            raise RuntimeError("bad __dict__")
        return object.__getattribute__(self, name)

class BadClass:
    def __init__(self, tag):
        object.__setattr__(self, "tag", tag)
    def __getattribute__(self, name):
        if name == "__class__":
            raise RuntimeError("bad __class__")
        return object.__getattribute__(self, name)

class BadEq:
    def __init__(self, tag):
        self.tag = tag
    def __eq__(self, o):
        raise ValueError("bad __eq__")
    def __hash__(self):
        return 7
    def __bool__(self):
        raise ValueError("bad __bool__")

class BadAll:
    def __getattribute__(self, name):
        raise RuntimeError("bad __getattribute__ " + name)

class SlowStr:
    def __init__(self, tag):
        self.tag = tag
    def __str__(self):
        __import__("time").sleep(0.15)
        return "SlowStr(%s)" % (self.tag,)
    __repr__ = __str__

class NoNameMeta(type):
    @property
    def __name__(cls):
        raise RuntimeError("no name for you")

class Nameless(metaclass=NoNameMeta):
    pass

class OddStr(str):
    def __getitem__(self, i):
        raise RuntimeError("no slicing")
    def __len__(self):
        raise RuntimeError("no len")
    def startswith(self, *a):
        raise RuntimeError("no startswith")
    def encode(self, *a, **k):
        raise RuntimeError("no encode")

class GivesOddStr:
    def __str__(self):
        return OddStr("odd text")
    __repr__ = __str__

class RudeMeta(type):
    def __repr__(cls):
        raise RuntimeError("no repr of the class")
    __str__ = __repr__

class Rude(metaclass=RudeMeta):
    """Neither the value nor its class can be turned into text."""
    def __str__(self):
        raise RuntimeError("no str of the value")
    __repr__ = __str__

class BareNamespace:
    """The least a class body's namespace has to be: item access, nothing else (no get, keys, items or iteration)."""
    def __init__(self):
        self._d = {}
    def __getitem__(self, k):
        return self._d[k]
    def __setitem__(self, k, v):
        self._d[k] = v

class BareMeta(type):
    @classmethod
    def __prepare__(mcs, name, bases):
        return BareNamespace()
    def __new__(mcs, name, bases, ns):
        return super().__new__(mcs, name, bases, dict(ns._d))

def via_class_body(fn, *a):
    """Call fn from the body of a class whose namespace (the frame's locals) is a BareNamespace."""
    class Model(metaclass=BareMeta):
        value = fn(*a)
    return Model.value

REPR_CALLS = []

class CountedLeaf:
    def __repr__(self):
        REPR_CALLS.append(1)
        return "leaf"

def mk_dag(n):
    v = [CountedLeaf()]
    for _i in range(n):
        v = [v, v]
    return v

class Item:
    def __init__(self):
        self._Items = [1, 2]
        self._Item = "exact"
        self.__secret = 1

class ClockBack:
    """Rendering this value takes 'negative time': the wall clock is set back two seconds while the agent looks at it."""
    def __str__(self):
        import simkit.kernel as _sk
        k = _sk.active()
        if k is not None and not getattr(self, "done", False):
            self.done = True
            k.wall_offset -= 2_000_000_000
            k.fault("clock_jump_back")
        return "ClockBack"
    __repr__ = __str__

class IntKey:
    pass

class Acct:
    def __init__(self, owner):
        self.__owner = owner

class Sess:
    def __init__(self, owner):
        self.__owner = owner
'''
PRELUDE_LINES = PRELUDE.count("\n")


def _s(r, n=None):
    n = n if n is not None else r.randrange(0, 9)
    return "".join(r.choice("abcxyz 019_") for _ in range(n))


def scalar_expr(r):
    k = r.randrange(9)
    if k == 0:
        return str(r.randrange(-5, 2000))
    if k == 1:
        return repr(r.choice((0.0, 1.5, -2.25, 1e10)))
    if k == 2:
        return r.choice(("True", "False", "None"))
    if k == 3:
        return repr(_s(r))
    if k == 4:
        return repr(_s(r, r.choice((30, 200, 1500))))
    if k == 5:
        return repr(r.choice(("éè 中文", "tab\there", "nl\nx", "quote'\"")))
    if k == 6:
        return str(r.randrange(10**12, 10**15))
    if k == 7:
        return repr(bytes(r.randrange(256) for _ in range(r.randrange(0, 5))))
    return str(r.randrange(10))


FRIENDLY_OBJ = ("P(%s, %s)", "Q(%s, %s, %s)", "S(%s, %s)")
OFFENDERS = (
    "b'\\x00\\xff\\xfe'", "bytearray(b'ab')", "__import__('datetime').datetime(2020, 1, 2, 3, 4, 5)",
    "__import__('collections').deque([1, 2, 3])", "__import__('enum').Enum('Color', 'RED GREEN').RED",
    "S(1, 'two')", "{1: 'one', 2: 'two'}", "{(1, 2): 'tuplekey', None: 0, 3.5: [1]}",
    "BadStr(1)", "BadStrBase(2)", "BadLen([1, 2])", "BadIter([1, 2, 3])", "BadGetattr(3)", "BadDict(4)",
    "BadClass(5)", "BadEq(6)", "(i for i in range(3))", "iter([1, 2, 3])", "iter({1: 2})", "range(5)",
    "'lone \\ud800 surrogate'", "{'k\\udc80': 'v'}", "object()", "len", "lambda: 1", "P", "__import__('sys')",
    "1+2j", "frozenset([1, 2, 3])", "memoryview(b'abc')", "HostErr('boom', 3)", "slice(1, 2)", "...",
    "__import__('decimal').Decimal('1.5')", "__import__('array').array('i', [1, 2])", "type('Dyn', (), {'a': 1})()",
    "{'nested': {'deep': [BadStr(9)]}}", "[BadLen([1])]", "__import__('collections').OrderedDict(a=1)",
    "__import__('collections').namedtuple('NT', 'a b')(1, 2)", "zip([1], [2])", "enumerate([5])",
)


# used by C06 only: a wholly hostile object, and one whose rendering alone outlasts the per-tracepoint time budget
OFFENDERS_HOSTILE = ("BadAll()", "SlowStr(7)", "Nameless()", "GivesOddStr()", "{OddStr('k'): 1, 'plain': 2}", "mk_dag(14)",
                     "Item()", "Rude()")


def value_expr(r, depth=0, offenders=False, maxdepth=3):
    """A Python source expression that builds a value (friendly types unless offenders=True)."""
    if offenders and r.random() < 0.25:
        return r.choice(OFFENDERS)
    if depth >= maxdepth or r.random() < 0.45:
        return scalar_expr(r)
    k = r.randrange(8)
    n = r.choice((0, 1, 2, 3, 3, 5, 12))
    sub = lambda: value_expr(r, depth + 1, offenders, maxdepth)  # noqa
    if k == 0:
        return "[" + ", ".join(sub() for _ in range(n)) + "]"
    if k == 1:
        return "(" + "".join(sub() + ", " for _ in range(n)) + ")"
    if k == 2:
        return "{" + ", ".join("%r: %s" % ("k%d" % i, sub()) for i in range(n)) + "}"
    if k == 3:
        items = [str(r.randrange(50)) for _ in range(n)]
        return ("set([%s])" if r.random() < 0.5 else "frozenset([%s])") % ", ".join(items)
    if k == 4:
        return "P(%s, %s)" % (sub(), sub())
    if k == 5:
        return "Q(%s, %s, %s)" % (sub(), sub(), sub())
    if k == 6:
        return "HostErr(%s)" % ", ".join(sub() for _ in range(min(n, 3)))
    return "{" + ", ".join("%r: %s" % ("key%d" % i, scalar_expr(r)) for i in range(n)) + "}"


class Program:
    """A generated host program plus the metadata the oracles and tracepoint generators need."""

    def __init__(self, name):
        self.name = name
        self.filename = APP_DIR + name + ".py"
        self.basename = name + ".py"
        self.lines = []
        self.meta = {}     # lineno -> {"func":..., "kind":..., "scope":[names]}
        self.funcs = {}    # func name -> {"def": lineno, "lines": [linenos], "params": [...]}
        self.source = None
        self.code = None

    def emit(self, indent, text, func=None, kind="stmt", scope=()):
        self.lines.append("    " * indent + text)
        ln = len(self.lines)
        if func is not None:
            self.meta[ln] = {"func": func, "kind": kind, "scope": list(scope)}
            self.funcs.setdefault(func, {"def": None, "lines": [], "params": []})["lines"].append(ln)
        return ln

    def finish(self):
        self.source = "\n".join(self.lines) + "\n"
        linecache.cache[self.filename] = (len(self.source), None, self.source.splitlines(True), self.filename)
        self.code = compile(self.source, self.filename, "exec")
        return self

    def load(self, extra=None):
        g = {"__name__": "simhost." + self.name, "__file__": self.filename}
        if extra:
            g.update(extra)
        exec(self.code, g)
        return g

    def stmt_lines(self, kinds=None, func=None):
        return [ln for ln, m in sorted(self.meta.items()) if (kinds is None or m["kind"] in kinds)
                and (func is None or m["func"] == func)]


def start_program(name, prelude=True):
    p = Program(name)
    if prelude:
        for line in PRELUDE.strip("\n").split("\n"):
            p.lines.append(line)
    return p


def gen_program(r, name, nfuncs=None, offenders=False, threads=0, use_random=False, gens=True, classes=True):
    """Random host program: functions f0..fn (fi calls fj, j>i), bounded recursion, try/except, generators,
    a class with methods; every function logs to out and returns a per-invocation unique value."""
    p = start_program(name)
    nfuncs = nfuncs or r.randrange(2, 6)
    p.emit(0, "")
    p.emit(0, "G_VAL = %s" % value_expr(r, 1))
    if use_random:
        p.emit(0, "import random as _hr")
    p.emit(0, "")
    if gens:
        p.emit(0, "def gen0(n, ctx, out):", "gen0", "def")
        p.funcs["gen0"]["def"] = len(p.lines)
        p.emit(1, "acc = 0", "gen0", "assign", ["n", "ctx", "out"])
        p.emit(1, "for i in range(n):", "gen0", "loop", ["n", "ctx", "out", "acc"])
        p.emit(2, "acc += i", "gen0", "assign", ["n", "ctx", "out", "acc", "i"])
        p.emit(2, "yield acc", "gen0", "yield", ["n", "ctx", "out", "acc", "i"])
        p.emit(1, "out.append(('gen-done', acc))", "gen0", "stmt", ["n", "ctx", "out", "acc"])
        p.emit(0, "")
    if classes:
        p.emit(0, "class Base:")
        p.emit(1, "def __init__(self, v, ctx, out):", "__init__", "def")
        p.emit(2, "self.v = v", "__init__", "assign", ["self", "v", "ctx", "out"])
        p.emit(2, "out.append(('base-init', v))", "__init__", "stmt", ["self", "v", "ctx", "out"])
        p.emit(1, "def work(self, x, ctx, out):", "work", "def")
        p.emit(2, "y = x + self.v", "work", "assign", ["self", "x", "ctx", "out"])
        p.emit(2, "return y", "work", "return", ["self", "x", "ctx", "out", "y"])
        p.emit(0, "class Child(Base):")
        p.emit(1, "def __init__(self, v, ctx, out):", "__init__", "def")
        p.emit(2, "super().__init__(v + 1, ctx, out)", "__init__", "call", ["self", "v", "ctx", "out"])
        p.emit(2, "self.__w = v * 2", "__init__", "assign", ["self", "v", "ctx", "out"])
        p.emit(1, "def work(self, x, ctx, out):", "work", "def")
        p.emit(2, "z = super().work(x, ctx, out) * 2", "work", "call", ["self", "x", "ctx", "out"])
        p.emit(2, "return z", "work", "return", ["self", "x", "ctx", "out", "z"])
        p.emit(0, "")
    for fi in range(nfuncs - 1, -1, -1):
        fn = "f%d" % fi
        p.emit(0, "def %s(n, ctx, out):" % fn, fn, "def")
        p.funcs[fn]["def"] = len(p.lines)
        p.funcs[fn]["params"] = ["n", "ctx", "out"]
        scope = ["n", "ctx", "out"]
        p.emit(1, "ctx['c'] += 1", fn, "stmt", scope)
        p.emit(1, "tag = '%s_%%d' %% ctx['c']" % fn, fn, "assign", scope)
        scope = scope + ["tag"]
        nst = r.randrange(2, 8)
        vi = 0
        for _ in range(nst):
            k = r.random()
            if k < 0.35:
                v = "v%d" % vi
                vi += 1
                p.emit(1, "%s = %s" % (v, value_expr(r, 0, offenders)), fn, "assign", scope)
                scope = scope + [v]
            elif k < 0.45:
                p.emit(1, "out.append((tag, n))", fn, "stmt", scope)
            elif k < 0.6 and fi + 1 < nfuncs:
                callee = "f%d" % r.randrange(fi + 1, nfuncs)
                v = "v%d" % vi
                vi += 1
                p.emit(1, "%s = %s(n, ctx, out)" % (v, callee), fn, "call", scope)
                scope = scope + [v]
            elif k < 0.68:
                p.emit(1, "if n > 0:", fn, "if", scope)
                p.emit(2, "out.append(('rec', %s(n - 1, ctx, out)))" % fn, fn, "call", scope)
            elif k < 0.78:
                p.emit(1, "for i in range(%d):" % r.randrange(1, 4), fn, "loop", scope)
                p.emit(2, "out.append((tag, 'loop', i))", fn, "stmt", scope + ["i"])
            elif k < 0.88:
                p.emit(1, "try:", fn, "try", scope)
                p.emit(2, "if n %% 2 == %d:" % r.randrange(2), fn, "if", scope)
                p.emit(3, "raise HostErr('e' + tag)", fn, "raise", scope)
                p.emit(2, "out.append((tag, 'noraise'))", fn, "stmt", scope)
                p.emit(1, "except HostErr as ex:", fn, "except", scope)
                p.emit(2, "out.append((tag, 'caught', str(ex)))", fn, "stmt", scope + ["ex"])
            elif k < 0.94 and gens:
                mode = r.randrange(3)
                if mode == 0:
                    p.emit(1, "for y in gen0(%d, ctx, out):" % r.randrange(1, 4), fn, "loop", scope)
                    p.emit(2, "out.append((tag, 'y', y))", fn, "stmt", scope + ["y"])
                elif mode == 1:
                    p.emit(1, "g = gen0(5, ctx, out)", fn, "assign", scope)
                    p.emit(1, "out.append((tag, next(g)))", fn, "stmt", scope + ["g"])
                    p.emit(1, "g.close()", fn, "stmt", scope + ["g"])
                    scope = scope + ["g"]
                else:
                    p.emit(1, "g2 = gen0(4, ctx, out)", fn, "assign", scope)
                    p.emit(1, "out.append((tag, next(g2), next(g2)))", fn, "stmt", scope + ["g2"])
                    scope = scope + ["g2"]
            elif use_random and r.random() < 0.5:
                p.emit(1, "out.append((tag, 'rnd', _hr.random()))", fn, "stmt", scope)
            elif classes:
                v = "o%d" % vi
                vi += 1
                p.emit(1, "%s = Child(n, ctx, out)" % v, fn, "call", scope)
                p.emit(1, "out.append((tag, %s.work(3, ctx, out)))" % v, fn, "call", scope + [v])
                scope = scope + [v]
            elif use_random:
                p.emit(1, "out.append((tag, 'rnd', _hr.random()))", fn, "stmt", scope)
        if fi == 0 and r.random() < 0.2:
            p.emit(1, "if n == 1:", fn, "if", scope)
            p.emit(2, "raise HostErr('top' + tag)", fn, "raise", scope)
        p.emit(1, "return 'r' + tag", fn, "return", scope)
        p.emit(0, "")
    p.emit(0, "def tmain(tid, n, out):", "tmain", "def")
    p.emit(1, "ctx = {'c': tid * 1000}", "tmain", "assign", ["tid", "n", "out"])
    p.emit(1, "try:", "tmain", "try", ["tid", "n", "out", "ctx"])
    p.emit(2, "res = f0(n, ctx, out)", "tmain", "call", ["tid", "n", "out", "ctx"])
    p.emit(2, "out.append(('result', res))", "tmain", "stmt", ["tid", "n", "out", "ctx", "res"])
    p.emit(1, "except BaseException as e:", "tmain", "except", ["tid", "n", "out", "ctx"])
    p.emit(2, "out.append(('raised', type(e).__name__, str(e)))", "tmain", "stmt", ["tid", "n", "out", "ctx", "e"])
    p.emit(0, "")
    return p.finish()


# ------------------------------------------------------------------------------------------------ value programs
VAL_HELPERS = '''
def mk_deep(d, leaf=7):
    v = leaf
    for _i in range(d):
        v = [v]
    return v

def mk_tree(b, d):
    if d == 0:
        return "leaf"
    return {"n%d" % i: mk_tree(b, d - 1) for i in range(b)}

def mk_objchain(d):
    o = P(0, "end")
    for _i in range(d):
        o = P(_i + 1, o)
    return o
'''


# well-behaved values of less common types (subclasses of the built-in containers and scalars, library value types): a
# truthful snapshot names their real type and renders them as the program would print them
EXOTIC = (
    "__import__('collections').namedtuple('NT', 'a b')(1, 2)", "__import__('collections').namedtuple('One', 'value')('abc')",
    "__import__('collections').namedtuple('One', 'value')(5)", "__import__('time').struct_time((2020, 1, 2, 3, 4, 5, 3, 2, 0))",
    "__import__('datetime').date(2020, 1, 2)", "__import__('decimal').Decimal('1.50')", "__import__('fractions').Fraction(3, 4)",
    "1+2j", "range(3)", "__import__('uuid').UUID(int=5)", "__import__('pathlib').PurePosixPath('/a/b')",
    "__import__('enum').IntEnum('Lvl', 'LOW HIGH').HIGH", "type('TupSub', (tuple,), {})((1, 2, 3))",
    "type('TupOne', (tuple,), {})(('%d',))", "type('StrSub', (str,), {})('text %s')", "type('IntSub', (int,), {})(7)",
    "type('ListSub', (list,), {})([1, 2])", "type('DictSub', (dict,), {})(a=1)", "type('FloatSub', (float,), {})(2.5)",
    "__import__('collections').Counter('aab')", "__import__('collections').defaultdict(list, a=[1])", "Item()",
)


def gen_local_stmts(r, n=None, offenders=False, big=False, sharing=False, cycles=False, plain=False):
    """Statements that bind locals.  Returns (list of source lines, list of local names in binding order)."""
    lines, names = [], []
    groups = []
    n = n if n is not None else r.randrange(1, 7)
    recipes = ["scalar", "scalar", "nested", "nested", "obj"]
    if not plain:
        recipes += ["alias", "exotic"]
    if big:
        recipes += ["biglist", "widedict", "deep", "longstr", "tree", "bigset", "objchain", "bigtuple"]
        if r.random() < 0.25:
            recipes += ["hugedict"]
    if sharing:
        recipes += ["shared", "alias", "sharedobj", "twinpriv"]
    if cycles:
        recipes += ["cyclist", "cycdict", "cycobj", "locals", "mutual"]
    if offenders:
        recipes += ["offender", "offender", "offender"]
    for i in range(n):
        k = r.choice(recipes)
        v = "%s%d" % (k[:3], i)
        groups.append(len(lines))
        if k == "scalar":
            lines.append("%s = %s" % (v, scalar_expr(r)))
        elif k == "nested":
            lines.append("%s = %s" % (v, value_expr(r, 0, False)))
        elif k == "obj":
            lines.append("%s = %s" % (v, r.choice(("P(1, 'b')", "Q(2, [1, 2], {'z': 1})", "S(3, 4)", "HostErr('m', 1)",
                                                   "P(P(1, 2), Q(3, 4, 5))"))))
        elif k == "exotic":
            e = r.choice(EXOTIC)
            lines.append("%s = %s" % (v, r.choice((e, e, "[%s, 1]" % e, "{'k': %s}" % e, "P(%s, 2)" % e))))
        elif k == "alias":
            if names:
                lines.append("%s = %s" % (v, r.choice(names)))
            else:
                lines.append("%s = 1" % v)
        elif k == "biglist":
            lines.append("%s = %s" % (v, r.choice(("list(range(%d))", "[str(i) * 3 for i in range(%d)]",
                                                   "[[i, i + 1] for i in range(%d)]", "[P(i, i) for i in range(%d)]"))
                                      % r.choice((11, 30, 150, 1200))))
        elif k == "bigtuple":
            lines.append("%s = tuple([i] for i in range(%d))" % (v, r.choice((11, 40))))
        elif k == "bigset":
            lines.append("%s = %s(range(%d))" % (v, r.choice(("set", "frozenset")), r.choice((11, 25, 300))))
        elif k == "widedict":
            lines.append("%s = {'k%%d' %% i: %s for i in range(%d)}" % (v, r.choice(("i", "[i]", "str(i)")),
                                                                     r.choice((11, 40, 1100))))
        elif k == "hugedict":
            # wider than any queue or table a collector might size "generously"
            size = r.choice((10500, 12000, 70000))
            form = r.randrange(3)
            if form == 0:
                lines.append("%s = {i: i for i in range(%d)}" % (v, size))
            elif form == 1:
                lines.append("%s = {'k%%d' %% i: [i] for i in range(%d)}" % (v, size))
            else:
                lines.append("%s = P(0, 0); %s.__dict__.update({'a%%d' %% i: i for i in range(%d)})" % (v, v, size))
        elif k == "deep":
            lines.append("%s = mk_deep(%d)" % (v, r.choice((2, 4, 5, 6, 9, 30))))
        elif k == "tree":
            lines.append("%s = mk_tree(%d, %d)" % (v, r.choice((2, 3, 12)), r.choice((2, 3, 4))))
        elif k == "objchain":
            lines.append("%s = mk_objchain(%d)" % (v, r.choice((2, 5, 8))))
        elif k == "longstr":
            lines.append("%s = %r * %d" % (v, r.choice(("x", "ab", "é")), r.choice((9, 1024, 1025, 5000))))
        elif k == "shared":
            lines.append("%s_s = [1, 'two']" % v)
            names.append(v + "_s")
            lines.append("%s = [%s_s, %s_s, {'again': %s_s}]" % (v, v, v, v))
        elif k == "sharedobj":
            lines.append("%s_o = P(1, 2)" % v)
            names.append(v + "_o")
            lines.append("%s = {'a': %s_o, 'b': [%s_o], 'c': (%s_o,)}" % (v, v, v, v))
        elif k == "twinpriv":
            # two classes, a private attribute of the same name in each, both referring to ONE object
            lines.append("%s_w = %s" % (v, r.choice(("'owner'", "['o']", "None", "P(1, 2)"))))
            names.append(v + "_w")
            lines.append("%s = [Acct(%s_w), Sess(%s_w)]" % (v, v, v))
        elif k == "cyclist":
            lines.append("%s = [1, 2]" % v)
            lines.append("%s.append(%s)" % (v, v))
        elif k == "cycdict":
            lines.append("%s = {'a': 1}" % v)
            lines.append("%s['me'] = %s" % (v, v))
        elif k == "cycobj":
            lines.append("%s = P(1, 2)" % v)
            lines.append("%s.me = %s" % (v, v))
        elif k == "mutual":
            lines.append("%s = {'n': 'x'}" % v)
            lines.append("%s_y = {'n': 'y', 'other': %s}" % (v, v))
            lines.append("%s['other'] = %s_y" % (v, v))
            names.append(v + "_y")
        elif k == "locals":
            lines.append("%s = locals()" % v)
        elif k == "offender":
            lines.append("%s = %s" % (v, r.choice(OFFENDERS)))
        names.append(v)
    gen_local_stmts.last_groups = [lines[a:b] for a, b in zip(groups, groups[1:] + [len(lines)])]
    return lines, names


def gen_value_program(r, name, local_lines, watches_scope=None, nthreads_hint=1, extra_inner=(), post_inner=()):
    """inner() binds the given locals and reaches the marked line; called through mid() and Holder.run()."""
    p = start_program(name)
    for line in VAL_HELPERS.strip("\n").split("\n"):
        p.lines.append(line)
    p.emit(0, "")
    p.emit(0, "G_HOST = 424242")
    # reachable only through watches (never bound in the frame): awkward values that several watches of one snapshot reach
    p.emit(0, "G_REG = {'n': [1, 2], 'job': BadStrBase(3), 'len': BadLen([4]), 'ok': P(5, 6), 'all': BadAll()}")
    p.emit(0, "")
    p.emit(0, "def inner(depth, ctx, out):", "inner", "def")
    scope = ["depth", "ctx", "out"]
    for line in local_lines:
        p.emit(1, line, "inner", "assign", scope)
    for line in extra_inner:
        p.emit(1, line, "inner", "stmt", scope)
    p.mark_line = p.emit(1, "mark = depth + 1", "inner", "mark", scope)
    p.after_line = p.emit(1, "out.append(('inner', mark))", "inner", "stmt", scope)
    for line in post_inner:
        p.emit(1, line, "inner", "stmt", scope)
    p.emit(1, "return mark", "inner", "return", scope)
    p.emit(0, "")
    p.emit(0, "def mid(ctx, out):", "mid", "def")
    p.emit(1, "m1 = {'mid': [1, 2, 3]}", "mid", "assign", ["ctx", "out"])
    p.mid_call_line = p.emit(1, "return inner(1, ctx, out)", "mid", "call", ["ctx", "out", "m1"])
    p.emit(0, "")
    p.emit(0, "class Holder:")
    p.emit(1, "def __init__(self):", "__init__", "def")
    p.emit(2, "self.h = 'holder'", "__init__", "assign", ["self"])
    p.emit(1, "def run(self, ctx, out):", "run", "def")
    p.emit(2, "hold = ('h', 1)", "run", "assign", ["self", "ctx", "out"])
    p.emit(2, "return mid(ctx, out)", "run", "call", ["self", "ctx", "out", "hold"])
    p.emit(0, "")
    # an inherited (not overridden) method runs with self of different classes: the frame's class is the class of the
    # self in THAT frame
    p.emit(0, "class SubHolder(Holder):")
    p.emit(1, "pass")
    p.emit(0, "")
    p.emit(0, "def tmain(tid, n, out):", "tmain", "def")
    p.emit(1, "ctx = {'c': tid * 1000}", "tmain", "assign", ["tid", "n", "out"])
    p.emit(1, "for rep in range(n):", "tmain", "loop", ["tid", "n", "out", "ctx"])
    p.emit(2, "holder = SubHolder() if (rep + tid) % 2 else Holder()", "tmain", "assign", ["tid", "n", "out", "ctx", "rep"])
    p.emit(2, "out.append(('res', holder.run(ctx, out)))", "tmain", "call", ["tid", "n", "out", "ctx", "rep", "holder"])
    p.emit(0, "")
    return p.finish()
