"""Boot the real agent inside a simulated run, with recording plugins and the simulated service."""
import sys

from . import kernel as _k, seams, fakegrpc, shims, simplugins

BUILTIN_OFF = {"PLUGIN_OTELPLUGIN": "False", "PLUGIN_PROMETHEUSPLUGIN": "False", "PLUGIN_OTELMETRICS": "False"}


class World:
    """One agent + one service + sinks, inside one kernel run.  Construct and use from a simulated thread."""

    def __init__(self, k, cfg=None, plugins=(), python_plugin=True, service=None, builtin_off=True):
        seams.install()
        seams.reset_process_state()
        self.k = k
        self.logs = seams.capture_logs()
        self.service = service or fakegrpc.SimService()
        fakegrpc.SERVICE = self.service
        self.sink = simplugins.Sink(k)
        simplugins.SINK = self.sink
        custom = {"SERVICE_URL": "sim:43315", "SERVICE_SECURE": "False", "APP_ROOT": "/simapp"}
        if builtin_off:
            custom.update(BUILTIN_OFF)
        if not python_plugin:
            custom["PLUGIN_PYTHONPLUGIN"] = "False"
        names = []
        for spec in plugins:
            names.append(simplugins.define(spec))
        if names:
            custom["PLUGINS"] = names
        custom.update(cfg or {})
        from deep.config.config_service import ConfigService
        from deep.config.tracepoint_config import TracepointConfigService
        from deep.api.deep import Deep
        self.custom = custom
        self.config = ConfigService(custom, tracepoints=TracepointConfigService())
        self.deep = Deep(self.config)
        self.handler = self.deep.trigger_handler
        self.pushed = []   # EventSnapshot objects handed to PushService.push_snapshot
        self._wrap_push()

    def _wrap_push(self):
        push = self.deep.push
        orig = push.push_snapshot
        world = self

        def push_snapshot(snapshot):
            k = _k.active()
            world.pushed.append((k.now_ns if k else 0, k.me().name if k else "?", snapshot))
            return orig(snapshot)

        push.push_snapshot = push_snapshot

    def start(self):
        self.deep.start()
        # the first poll's configuration is applied by a task on the pool: wait for it, so that it cannot land later (a
        # stalled worker) on top of triggers a scenario installs directly
        k = _k.active()
        if k is not None:
            from . import common
            common.wait_until(k, lambda: not self.deep.task_handler._pending, 60)
        return self

    def install_triggers(self, triggers):
        """Directly install Trigger objects (the only way to set collection limits and windows)."""
        self.handler.new_config(list(triggers))

    def close(self):
        fakegrpc.SERVICE = None
        simplugins.SINK = None
        sys.settrace(None)
        import threading
        threading.settrace(None)
        shims.TRACE_SEAM.recorder = None
        shims.TRACE_SEAM.on_raise = None
        shims.TRACE_SEAM.post = None


def line_trigger(tp_id, path, line, args=None, watches=None, metrics=None):
    from deep.api.tracepoint.trigger import build_trigger
    return build_trigger(tp_id, path, line, dict(args or {}), list(watches or []), list(metrics or []))


def direct_action(tp_id, path, line, config, condition=None, kind="Snapshot", method=None, position=None):
    """A Trigger with one directly constructed LocationAction (limits / window / stage in config)."""
    from deep.api.tracepoint.trigger import LocationAction, LineLocation, FunctionLocation, Trigger, Location
    pos = position or Location.Position.START
    loc = FunctionLocation(path, method, pos) if method else LineLocation(path, line, pos)
    act = LocationAction(tp_id, condition, dict(config), getattr(LocationAction.ActionType, kind))
    return Trigger(loc, [act])
