#!/bin/bash
# usage: trymut.sh <seeded-id> <check-id> [wall]   - scratch worktree of /repo HEAD + the seeded change, run one quick check against it
id=$1; chk=$2; wall=${3:-30}
wt=$(mktemp -d /tmp/try_${id}_XXXX); rmdir $wt
git -C /repo worktree add -q --detach $wt HEAD
if git -C $wt apply /verif/seeded/$id/patch.diff; then
  VERIF_REPO=$wt VERIF_WALL=$wall /verif/check $chk --tier quick 2>&1 | grep -v "^check " | cut -c1-700 | tail -${4:-6}
else echo "PATCH DOES NOT APPLY"; fi
git -C /repo worktree remove --force $wt; rm -rf $wt; rm -f /verif/replays/*.json
