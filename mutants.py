#!/venv/bin/python
"""Seeded changes (/verif/seeded/<id>/): confirm and evaluate.

  mutants.py eval <id> [--checks C01,C09] [--wall 40]   scratch worktree of /repo HEAD + patch.diff; unit suite must still
                                                        pass; the demonstration must fail with and pass without the
                                                        change; then the named checks (default: meta.json "property")
                                                        run against it (VERIF_REPO); result written into meta.json
  mutants.py all [prefix] [--wall 40]                   every seeded change (whose id starts with prefix)
  mutants.py table                                      summary table (markdown) from the meta.json files
No change is ever applied to /repo itself by this tool; worktrees live under /tmp and are removed afterwards.
"""
import json
import os
import re
import shutil
import subprocess
import sys
import tempfile

HERE = os.path.dirname(os.path.abspath(__file__))
SEEDED = os.path.join(HERE, "seeded")
BASE = json.load(open("/root/.vp/BASELINE.json"))


def sh(cmd, **kw):
    try:
        return subprocess.run(cmd, capture_output=True, text=True, **kw)
    except subprocess.TimeoutExpired as e:
        # (a demonstration that hangs: reported as exit code 124, like timeout(1))
        return subprocess.CompletedProcess(cmd, 124, stdout=(e.stdout or b"").decode("utf-8", "replace") if isinstance(e.stdout, bytes) else (e.stdout or ""),
                                           stderr="TIMEOUT after %ss" % e.timeout)


IT_LOCK = __import__("threading").Lock()   # the integration tests bind a fixed port: one run at a time


def unit_suite(wt):
    import xml.etree.ElementTree as ET
    env = dict(os.environ, PYTHONPATH="%s/src:%s/tests" % (wt, wt))
    passed = set()
    for part, lock in (("tests/unit_tests", None), ("tests/it_tests", IT_LOCK)):
        out = tempfile.mktemp(suffix=".xml", dir="/tmp")
        if lock:
            lock.acquire()
        try:
            sh(["/venv/bin/python", "-m", "pytest", "-q", "-p", "no:cacheprovider", "--timeout=900",
                "--continue-on-collection-errors", part, "--junitxml=" + out], cwd=wt, env=env)
            for tc in ET.parse(out).getroot().iter("testcase"):
                if not list(tc):
                    passed.add("%s::%s" % (tc.get("classname"), tc.get("name")))
        except (OSError, ET.ParseError):
            pass
        finally:
            if lock:
                lock.release()
            if os.path.exists(out):
                os.unlink(out)
    missing = [t for t in BASE["stable_pass"] if t not in passed]
    return missing


def make_worktree(mid, meta, d):
    """Scratch worktree of /repo HEAD with the change applied; when the patch no longer applies to HEAD (a later fix
    rewrote the lines it touches) the commit pinned in meta["base"] is used instead and recorded."""
    for base in ("HEAD", meta.get("base")):
        if base is None:
            continue
        wt = tempfile.mkdtemp(prefix="mut_%s_" % mid, dir="/tmp")
        os.rmdir(wt)
        sh(["git", "-C", "/repo", "worktree", "add", "-q", "--detach", wt, base])
        a = sh(["git", "-C", wt, "apply", "--check", os.path.join(d, "patch.diff")])
        if a.returncode == 0:
            return wt, base, None
        err = a.stderr[-300:]
        drop_worktree(wt)
    return None, None, err


def drop_worktree(wt):
    sh(["git", "-C", "/repo", "worktree", "remove", "--force", wt])
    shutil.rmtree(wt, ignore_errors=True)


def confirm(mid):
    """Demonstration fails with / passes without the change, and the unit suite still passes with it."""
    d = os.path.join(SEEDED, mid)
    meta = json.load(open(os.path.join(d, "meta.json")))
    wt, base, err = make_worktree(mid, meta, d)
    if wt is None:
        return {"apply": "FAILED: " + err}
    res = {"base": base, "base_commit": sh(["git", "-C", wt, "rev-parse", "--short", "HEAD"]).stdout.strip()}
    try:
        demo = next((f for f in os.listdir(d) if f.startswith("demo") and f.endswith(".py")), None)
        env = dict(os.environ, PYTHONPATH="%s/src:%s/tests" % (wt, wt))
        if demo:
            shutil.copy(os.path.join(d, demo), os.path.join(wt, demo))
            r0 = sh(["/venv/bin/python", demo], cwd=wt, env=env, timeout=150)
            res["demo_without_change_rc"] = r0.returncode
        sh(["git", "-C", wt, "apply", os.path.join(d, "patch.diff")])
        if demo:
            r1 = sh(["/venv/bin/python", demo], cwd=wt, env=env, timeout=150)
            res["demo_with_change_rc"] = r1.returncode
            res["demo_output_with_change"] = (r1.stdout + r1.stderr)[-400:]
        res["baseline_tests_missing_with_change"] = unit_suite(wt)
    finally:
        drop_worktree(wt)
    return res


def evaluate(mid, checks=None, wall="40", suite=True, confirmed=None):
    d = os.path.join(SEEDED, mid)
    meta_p = os.path.join(d, "meta.json")
    meta = json.load(open(meta_p)) if os.path.exists(meta_p) else {"id": mid}
    checks = checks or meta.get("checks") or [meta["property"]]
    res = confirmed if confirmed is not None else (confirm(mid) if suite else {})
    if "apply" in res:
        meta["result"] = res
        json.dump(meta, open(meta_p, "w"), indent=1)
        print(mid, "patch does not apply:", res["apply"][-200:])
        return meta
    wt, base, err = make_worktree(mid, meta, d)
    if wt is None:
        meta["result"] = {"apply": "FAILED: " + err}
        json.dump(meta, open(meta_p, "w"), indent=1)
        print(mid, "patch does not apply:", err[-200:])
        return meta
    res.setdefault("base", base)
    res.setdefault("base_commit", sh(["git", "-C", wt, "rev-parse", "--short", "HEAD"]).stdout.strip())
    try:
        def run_checks():
            out = {}
            for cid in checks:
                env2 = dict(os.environ, VERIF_REPO=wt, VERIF_WALL=str(wall))
                p = sh([os.path.join(HERE, "check"), cid, "--tier", "quick"], cwd=HERE, env=env2)
                sigs = re.findall(r"signature: (\S+)", p.stdout) + re.findall(r"unlisted violation signature (\S+)", p.stdout)
                runs = re.findall(r": (\d+) runs", p.stdout)
                out[cid] = {"rc": p.returncode, "signatures": sigs[:8], "runs": int(runs[-1]) if runs else None}
                if p.returncode == 2:
                    out[cid]["harness"] = p.stdout[-400:]
            return out
        base_det = {}
        if base != "HEAD":
            # an older tree: what the checks report there WITHOUT the change (defects repaired since) does not count
            base_det = run_checks()
        sh(["git", "-C", wt, "apply", os.path.join(d, "patch.diff")])
        det = run_checks()
        for cid, v in det.items():
            if cid in base_det:
                v["signatures_on_unchanged_base"] = base_det[cid]["signatures"]
                v["signatures"] = [x for x in v["signatures"] if x not in base_det[cid]["signatures"]]
                if not v["signatures"] and v["rc"] == 1:
                    v["rc"] = 0
        res["checks"] = det
        res["detected_by"] = sorted(c for c, v in det.items() if v["rc"] == 1)
        if not suite and "result" in meta:
            for k in ("demo_without_change_rc", "demo_with_change_rc", "demo_output_with_change",
                      "baseline_tests_missing_with_change"):
                if k in meta["result"] and k not in res:
                    res[k] = meta["result"][k]
        meta["result"] = res
        json.dump(meta, open(meta_p, "w"), indent=1)
        print("%-34s property %s (on %s): demo %s/%s, suite %s, detected by %s %s" % (
            mid, meta.get("property"), res["base_commit"], res.get("demo_without_change_rc"), res.get("demo_with_change_rc"),
            "ok" if not res.get("baseline_tests_missing_with_change") else "BROKEN %s" % res["baseline_tests_missing_with_change"][:2],
            res["detected_by"] or "NOBODY", {c: v["signatures"][:2] for c, v in det.items() if v["rc"] == 1}), flush=True)
    finally:
        drop_worktree(wt)
        for f in os.listdir(os.path.join(HERE, "replays")):
            if f.endswith(".json"):
                os.remove(os.path.join(HERE, "replays", f))
    return meta


def evaluate_all(mids, wall, suite):
    """Demonstrations and unit suites run 8 at a time first; the checks then run one after another with all cores."""
    confirmed = {}
    if suite:
        from concurrent.futures import ThreadPoolExecutor
        with ThreadPoolExecutor(8) as ex:
            confirmed = dict(zip(mids, ex.map(confirm, mids)))
    for mid in mids:
        evaluate(mid, None, wall, suite=suite, confirmed=confirmed.get(mid))


def table():
    rows = []
    for mid in sorted(os.listdir(SEEDED)):
        mp = os.path.join(SEEDED, mid, "meta.json")
        if not os.path.exists(mp):
            continue
        m = json.load(open(mp))
        r = m.get("result", {})
        det = ", ".join(r.get("detected_by", [])) or "-"
        if m.get("status"):
            det = "%s (%s)" % (det, m["status"])
        rows.append("| %s | %s | %s | %s | %s |" % (mid, m.get("property"), m.get("needs", "")[:110], det,
                                                  "; ".join(s for c in r.get("detected_by", []) for s in r["checks"][c]["signatures"][:2])[:120]))
    print("| seeded change | property | needs | detected by | signatures |\n|---|---|---|---|---|")
    print("\n".join(rows))


if __name__ == "__main__":
    args = sys.argv[1:]
    wall = args[args.index("--wall") + 1] if "--wall" in args else "40"
    checks = args[args.index("--checks") + 1].split(",") if "--checks" in args else None
    if args[0] == "eval":
        evaluate(args[1], checks, wall, suite="--no-suite" not in args)
    elif args[0] == "all":
        only = args[1] if len(args) > 1 and not args[1].startswith("--") else ""
        evaluate_all([mid for mid in sorted(os.listdir(SEEDED)) if mid.startswith(only)
                      and os.path.exists(os.path.join(SEEDED, mid, "patch.diff"))], wall, "--no-suite" not in args)
    elif args[0] == "table":
        table()
