#!/venv/bin/python
"""Self-tests of the machinery.

  selftest.py determinism <ID|all> [n]   every seed twice: different process layout, worker count and PYTHONHASHSEED;
                                         event-log digests, violation signatures and choice traces must agree
  selftest.py reverts [ID|commit ...]    sensitivity: each recorded "fix:" commit reverted in a scratch worktree
                                         (VERIF_REPO) must make its property's quick check exit 1 again
"""
import json
import os
import subprocess
import sys

HERE = os.path.dirname(os.path.abspath(__file__))


def digests(cid, tier, count, nproc, hashseed):
    env = dict(os.environ, PYTHONHASHSEED=str(hashseed), PYTHONDONTWRITEBYTECODE="1",
               PYTHONPATH=os.path.join(os.environ.get("VERIF_REPO", "/repo"), "src") + os.pathsep + HERE)
    procs = [subprocess.Popen(["/venv/bin/python", "-m", "simkit.cli", "--worker", cid, tier, "0", str(w), str(nproc),
                               str(count), "600"], cwd=HERE, env=env, stdout=subprocess.PIPE, stderr=subprocess.PIPE,
                              text=True) for w in range(nproc)]
    out = {}
    errs = []
    import threading
    res = [None] * nproc

    def drain(i):
        res[i] = procs[i].communicate()
    ts = [threading.Thread(target=drain, args=(i,)) for i in range(nproc)]
    [t.start() for t in ts]
    [t.join() for t in ts]
    for i in range(nproc):
        so, se = res[i]
        for line in so.splitlines():
            if line.startswith("{"):
                r = json.loads(line)
                if "harness_error" in r:
                    errs.append(r)
                elif "seed" in r:
                    out[r["seed"]] = (r["digest"], tuple(r["sigs"]), r["steps"], r["order"])
    return out, errs


def determinism(cid, n):
    a, ea = digests(cid, "quick", n, 3, 0)
    b, eb = digests(cid, "quick", n, 16, 4242)
    bad = [s for s in sorted(set(a) | set(b)) if a.get(s) != b.get(s)]
    print("%s: %d seeds x2 (3 procs/hashseed 0 vs 16 procs/hashseed 4242): %d differ, harness errors %d/%d" % (
        cid, n, len(bad), len(ea), len(eb)))
    for s in bad[:5]:
        print("   seed", s, a.get(s), b.get(s))
    if ea:
        print("   harness:", json.dumps(ea[0])[:600])
    return not bad and not ea and not eb and len(a) == n


if __name__ == "__main__" and sys.argv[1] == "determinism":
    cmd = sys.argv[1]
    if cmd == "determinism":
        which = sys.argv[2]
        n = int(sys.argv[3]) if len(sys.argv) > 3 else 200
        ids = [which] if which != "all" else sorted(
            f[:-3].upper() for f in os.listdir(os.path.join(HERE, "checks")) if f.startswith("c") and f.endswith(".py"))
        ok = True
        for cid in ids:
            ok = determinism(cid, n) and ok
        sys.exit(0 if ok else 1)


def reverts():
    """Sensitivity: every recorded fix, reverted in a scratch worktree, must make its property's check fail again."""
    import re
    import shutil
    import tempfile
    rows = []
    for line in open(os.path.join(HERE, "known_findings.txt")):
        m = re.match(r"fixed: property=(C\d+) ([0-9a-f]{7,})", line)
        if m and "[defence-in-depth" not in line:
            rows.append((m.group(1), m.group(2)))
    ok = True
    only = sys.argv[2:] if len(sys.argv) > 2 else None
    for cid, commit in rows:
        if only and commit not in only and cid not in only:
            continue
        wt = tempfile.mkdtemp(prefix="revert_%s_" % commit, dir="/tmp")
        os.rmdir(wt)
        subprocess.run(["git", "-C", "/repo", "worktree", "add", "-q", "--detach", wt, "HEAD"], check=True)
        try:
            r = subprocess.run(["git", "-C", wt, "revert", "--no-commit", commit], capture_output=True, text=True)
            if r.returncode != 0:
                print("%s %s: revert does not apply cleanly on HEAD (later fixes touch the same lines) - skipped" % (cid, commit))
                continue
            env = dict(os.environ, VERIF_REPO=wt, VERIF_WALL="40")
            p = subprocess.run([os.path.join(HERE, "check"), cid, "--tier", "quick"], cwd=HERE, env=env,
                               capture_output=True, text=True)
            sigs = re.findall(r"signature: (\S+)", p.stdout)
            state = "DETECTED" if p.returncode == 1 else "MISSED (rc=%d)" % p.returncode
            print("%s revert of %s: %s %s" % (cid, commit, state, sigs[:3]))
            if p.returncode != 1:
                ok = False
                print(p.stdout[-600:])
        finally:
            subprocess.run(["git", "-C", "/repo", "worktree", "remove", "--force", wt])
            shutil.rmtree(wt, ignore_errors=True)
    for f in os.listdir(os.path.join(HERE, "replays")):
        if f.endswith(".json"):
            os.remove(os.path.join(HERE, "replays", f))
    return ok


if __name__ == "__main__" and sys.argv[1] == "reverts":
    sys.exit(0 if reverts() else 1)
