#!/venv/bin/python
"""Self-tests of the machinery.

  selftest.py determinism <ID|all> [n]   every seed twice: different process layout, worker count and PYTHONHASHSEED;
                                         event-log digests, violation signatures and choice traces must agree
"""
import json
import os
import subprocess
import sys

HERE = os.path.dirname(os.path.abspath(__file__))


def digests(cid, tier, count, nproc, hashseed):
    env = dict(os.environ, PYTHONHASHSEED=str(hashseed), PYTHONPATH=HERE, PYTHONDONTWRITEBYTECODE="1")
    procs = [subprocess.Popen(["/venv/bin/python", "-m", "simkit.cli", "--worker", cid, tier, "0", str(w), str(nproc),
                               str(count), "600"], cwd=HERE, env=env, stdout=subprocess.PIPE, stderr=subprocess.PIPE,
                              text=True) for w in range(nproc)]
    out = {}
    errs = []
    import threading
    res = [None] * nproc

    def drain(i):
        res[i] = procs[i].communicate()
    ts = [threading.Thread(target=drain, args=(i,)) for i in range(nproc)]
    [t.start() for t in ts]
    [t.join() for t in ts]
    for i in range(nproc):
        so, se = res[i]
        for line in so.splitlines():
            if line.startswith("{"):
                r = json.loads(line)
                if "harness_error" in r:
                    errs.append(r)
                elif "seed" in r:
                    out[r["seed"]] = (r["digest"], tuple(r["sigs"]), r["steps"], r["order"])
    return out, errs


def determinism(cid, n):
    a, ea = digests(cid, "quick", n, 3, 0)
    b, eb = digests(cid, "quick", n, 16, 4242)
    bad = [s for s in sorted(set(a) | set(b)) if a.get(s) != b.get(s)]
    print("%s: %d seeds x2 (3 procs/hashseed 0 vs 16 procs/hashseed 4242): %d differ, harness errors %d/%d" % (
        cid, n, len(bad), len(ea), len(eb)))
    for s in bad[:5]:
        print("   seed", s, a.get(s), b.get(s))
    if ea:
        print("   harness:", json.dumps(ea[0])[:600])
    return not bad and not ea and not eb and len(a) == n


if __name__ == "__main__":
    cmd = sys.argv[1]
    if cmd == "determinism":
        which = sys.argv[2]
        n = int(sys.argv[3]) if len(sys.argv) > 3 else 200
        ids = [which] if which != "all" else sorted(
            f[:-3].upper() for f in os.listdir(os.path.join(HERE, "checks")) if f.startswith("c") and f.endswith(".py"))
        ok = True
        for cid in ids:
            ok = determinism(cid, n) and ok
        sys.exit(0 if ok else 1)
