#!/venv/bin/python
"""Regenerate MANIFEST.json from the check modules' metadata (so it is valid at every commit)."""
import importlib
import json
import os
import sys

HERE = os.path.dirname(os.path.abspath(__file__))
sys.path.insert(0, HERE)
props = [json.loads(l) for l in open(os.path.join(HERE, "properties.jsonl"))]
PENDING = "check not built yet in this session (planned in DESIGN.md section 4); not claimed until it exists"
NA = {}   # property id -> reason, for properties deliberately not claimed

checks = []
na = []
for p in props:
    pid = p["id"]
    path = os.path.join(HERE, "checks", pid.lower() + ".py")
    if pid in NA:
        na.append({"property_id": pid, "reason": NA[pid]})
        continue
    if not os.path.exists(path):
        na.append({"property_id": pid, "reason": PENDING})
        continue
    m = importlib.import_module("checks." + pid.lower())
    checks.append({
        "property_id": pid,
        "quick_cmd": "./check %s --tier quick" % pid,
        "thorough_cmd": "./check %s --tier thorough" % pid,
        "evidence_file": "/verif/evidence/%s.json" % pid,
        "replay_cmd_template": "./check --replay {path}",
        "engine": "simkit",
        "level_claimed": {"category": m.LEVEL, "text": m.TEXT, "design_ref": "DESIGN.md section 4 (%s)" % pid},
        "level_note": m.NOTE,
        "technique": m.TECHNIQUE,
    })

manifest = {
    "version": 1,
    "setup_cmd": "cd /verif && /venv/bin/python -c \"import sys; sys.path.insert(0,'/verif'); "
                 "from simkit import seams; seams.install(); import grpc, deepproto, hypothesis; print('simkit ok', len(seams.rebound), 'seams')\"",
    "hooks": {"guard": "DEEP_VERIF_SIM", "enable": "no source hooks: the simulator installs itself from /verif by rebinding "
              "module globals of deep.* (time, threading, uuid, sys.settrace, grpc, ThreadPoolExecutor); "
              "checks import deep from $VERIF_REPO/src (default /repo/src), nothing to build",
              "baseline_off_cmd": "cd /repo && /venv/bin/python -m pytest -ra -q -p no:cacheprovider --timeout=900 "
                                  "--continue-on-collection-errors",
              "source_commits": [], "add_only": True},
    "engines": [{"name": "simkit", "path": "/verif/simkit",
                 "serves_properties": [c["property_id"] for c in checks],
                 "kind_free_text": "deterministic simulation: baton-passing real threads under a seeded scheduler, "
                                   "discrete-event clock, fake gRPC transport + scripted DEEP service, fault injection "
                                   "(host objects, plugins, service, stalls, crash points), recorded choice trace, "
                                   "ddmin shrinking, replay files"}],
    "checks": checks,
    "not_applicable": na,
    "notes": "All checks: exit 0 held / 1 VIOLATION (unlisted) / 2 harness error. VERIF_SEED selects the seed block "
             "(run i uses seed VERIF_SEED*10^6+i). Known findings: /verif/known_findings.txt.",
}
json.dump(manifest, open(os.path.join(HERE, "MANIFEST.json"), "w"), indent=1)
print("MANIFEST.json: %d checks, %d not claimed" % (len(checks), len(na)))
