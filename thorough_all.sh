#!/bin/bash
# every check's thorough command once, one after the other; prints the last lines of each (exit codes at the end)
cd "$(dirname "$0")"
declare -A rc
for c in C01 C02 C03 C04 C05 C06 C07 C08 C09 C10 C11 C12 C13 C14 C15 C16 C17 C18 C19 C20; do
  echo "=== $c $(date +%H:%M:%S)"
  ./check $c --tier thorough 2>&1 | grep -v "^check " | tail -6 | cut -c1-400
  rc[$c]=${PIPESTATUS[0]}
done
echo "=== exit codes"
for c in "${!rc[@]}"; do echo "$c ${rc[$c]}"; done | sort
